import IodineModel.Lemmas.C02M1
/-
C02 / lazy mode, DOWNSTREAM — part 2: the client's ping as the server reads it (`sendPing_readyL`), and the two iterations
of the server that receive a ping in lazy mode with no query held: a fragment is due (`srv_ping_lazy_more`: answered at
once, as in immediate mode), nothing is left to send (`srv_ping_lazy_hold`: the ping is held).
-/
namespace Iodine.C02L
open Iodine Iodine.Gen Iodine.World

/-- the client's ping as the server reads it (`PingQ`), for a lazy-mode client in the standing conditions `CStatL` whose
answer counting is in balance -/
theorem sendPing_readyL {P : Par} (hP : P.Ok) {c : Client.Cli} (hc : CStatL P c) (hcnt : CntOk c 1) :
    ∃ name, Client.sendPing c =
        ⟨bumpCnt (Client.rotateChunkid { c with randSeed := (c.randSeed + 1) % 65536 }),
         [.query (pingStateL c).chunkid P.ty name], false⟩ ∧
      PingQ P (upQuery (pingStateL c).chunkid P.ty name) c.inpkt.seqno c.inpkt.fragment c.randSeed := by
  have hqt : c.doQtype < 65536 := by rw [hc.ty]; exact tunnelType_lt hP.tty
  have hur : 0 ≤ c.userid ∧ c.userid < 16 := by rw [hc.uid]; have := hP.hu; omega
  obtain ⟨name, hsend, h0, _, dlen, hq, h2, hun, hu0, hu1, hu2, cp, hcp, hfp, hfl⟩ :=
    sendPing_factsL c P.ec.codec P.L P.td hcnt hc.L hc.td hP.set hqt hc.conn hur hc.seed hc.iseq hc.ifrag
  have hpd := pingData_eq c hur hc.seed hc.iseq hc.ifrag
  have hlen4 : (pingData c).length = 4 := pingData_length c
  rw [← pingStateL_chunkid] at hsend
  have hun' := hun P.ty (pingStateL c).chunkid clientAddr Server.Addr.zero serverAddr
  have hd2 : ((pingData c).take 4).getD 2 0 = c.randSeed / 256 := by rw [hpd]; rfl
  have hd3 : ((pingData c).take 4).getD 3 0 = c.randSeed % 256 := by rw [hpd]; rfl
  refine ⟨name, ?_, ?_⟩
  · rw [hsend, hc.ty]
  · refine ⟨rfl, rfl, ?_, rfl, h0, hc.seed, ⟨dlen, hq, h2, ?_, ?_, ?_, ?_, ?_, ?_⟩, ?_, ⟨cp, hcp, hfl, ?_, ?_⟩⟩
    · rw [upQuery_id, pingStateL_chunkid]; exact Client.rotateChunkid_ne_zero _
    · show 4 ≤ (pingUnpacked (upQuery _ P.ty name) dlen).length
      unfold upQuery; rw [hun', hlen4]; omega
    · show Server.charVal ((pingUnpacked (upQuery _ P.ty name) dlen).getD 0 0) = _
      unfold upQuery; rw [hun', hu0, hc.uid]
    · show Server.charVal ((pingUnpacked (upQuery _ P.ty name) dlen).getD 1 0) / 16 = _
      unfold upQuery; rw [hun', hu1]
    · show Server.charVal ((pingUnpacked (upQuery _ P.ty name) dlen).getD 1 0) % 16 = _
      unfold upQuery; rw [hun', hu2]
    · show ((pingUnpacked (upQuery _ P.ty name) dlen).take 4).getD 2 0 = _
      unfold upQuery; rw [hun', hd2]
    · show ((pingUnpacked (upQuery _ P.ty name) dlen).take 4).getD 3 0 = _
      unfold upQuery; rw [hun', hd3]
    · show seedOfName P.td name = c.randSeed
      unfold seedOfName
      rw [hq]
      simp only
      have hun2 : Encoding.unpackData Codec.b32 65536 ((name.take (min dlen 512)).drop 1) = pingData c := hun'
      rw [hun2, hpd]
      show c.randSeed / 256 * 256 + c.randSeed % 256 = c.randSeed
      omega
    · show ((Codec.dec Codec.b32 8 (cp - 1) (name.drop 1)).take 4).getD 2 0 = _
      rw [hfp, hpd]; rfl
    · show ((Codec.dec Codec.b32 8 (cp - 1) (name.drop 1)).take 4).getD 3 0 = _
      rw [hfp, hpd]; rfl

section server
open Iodine.Server

/-- A ping reaches the server in lazy mode while no query is held and the acknowledged outpacket still has something to
send: the next fragment is the answer — the same slot and events as in immediate mode (`AfterPing`). -/
theorem srv_ping_lazy_more {P : Par} (hP : P.Ok) {s : Srv} (hS : SStat P s)
    (hq : (getUser s P.u).q.id = 0) (hqs : (getUser s P.u).qs.id = 0)
    (hoq : (getUser s P.u).oqFilled = 0) (hres : (getUser s P.u).outfragresent ≤ 5)
    {Q : Query} {a b : Int} {sd : Nat} (hQ : PingQ P Q a b sd)
    {k : Nat} (hA : Aged P (getUser s P.u) k 1) (hPA : PAged P (getUser s P.u) sd 1)
    (hlen : 0 < (ackSess { getUser s P.u with qsNew := false } a b).outpacket.len) :
    ∃ s' evs t pkt, iteration s (.q Q) s.now = (s', evs, t) ∧ downOfEvents evs = [.ans Q.id Q.type Q.name pkt] ∧
      tunOfSEvents evs = [] ∧ AfterPing P s s' Q a b pkt ∧
      Aged P (getUser s' P.u) k 1 ∧ PAged P (getUser s' P.u) ((sd + 1) % 65536) 1 := by
  obtain ⟨dlen, hdl, h2, h4, huid, ha, hb, hc2, hc3⟩ := hQ.parse
  obtain ⟨cp, hcp, hfl, hf2, hf3⟩ := hQ.fp
  have htop := topSess_live hS
  have hu := hS.solo.lt
  generalize hx0 : ({ getUser s P.u with qsNew := false } : Session) = x0 at htop hlen
  have hx0q : x0.q.id = 0 := by subst hx0; exact hq
  have hx0qs : x0.qs.id = 0 := by subst hx0; exact hqs
  have hx0oq : x0.oqFilled = 0 := by subst hx0; exact hoq
  have hx0A : Aged P x0 k 1 := by subst hx0; exact hA.congr rfl rfl rfl rfl
  have hx0P : PAged P x0 sd 1 := by subst hx0; exact hPA.congr rfl rfl rfl rfl
  have hit := iteration_ping hS.solo Q s.now dlen (by rw [hS.td]; exact hdl) h2 hQ.c0 (hQ.ty ▸ hP.tty) hQ.id h4 huid
    (admitted_entry hS Q hQ.from_)
    (by rw [htop]; exact hx0P.cacheMiss hQ.sdlt (by omega) Q hQ.ty hQ.c0 hQ.seed)
    (by rw [htop]; exact hx0P.qmemMiss hQ.sdlt (by omega) Q hQ.ty _ hc2 hc3)
    (by rw [htop]; exact Or.inl hx0q) (by rw [htop]; exact Or.inl hx0qs)
  rw [htop, ha, hb, pingSess_lazy_more x0 P.u Q a b s.now hx0q hx0qs hx0oq hlen] at hit
  -- the slot with the query stored
  have hac := ackSess_core x0 a b hx0oq
  generalize hy : saveQ (ackSess x0 a b) Q s.now = y at hit
  have hyq : y.q = Q := by subst hy; rfl
  have hsm := ackSess_sameMem x0 a b hx0oq
  have hyA : Aged P y k 1 := by
    subst hy
    exact hx0A.congr hsm.1 hsm.2.1 hsm.2.2.2.2.1 hsm.2.2.2.2.2
  have hyP : PAged P y sd 1 := by
    subst hy
    exact hx0P.congr hsm.2.2.1 hsm.2.2.2.1 hsm.2.2.2.2.1 hsm.2.2.2.2.2
  have hyid2 : y.q.id2 = 0 := by rw [hyq]; exact hQ.id2
  have hyoq : y.oqFilled = 0 := by
    subst hy
    show (ackSess x0 a b).oqFilled = 0
    have := core_oqFilled hac
    rw [this]; exact hx0oq
  have hyres : y.outfragresent ≤ 5 := by
    subst hy
    exact ackSess_res x0 a b hx0oq (by subst hx0; exact hres)
  obtain ⟨y1, pkt, hm1, hpl, hev, _, hm2, hqs2⟩ := scSess_q_shape y P.u hyid2 hyoq hyres
  rw [hyq] at hev hm2
  have hyqs : y.qs.id = 0 := by
    subst hy
    show (ackSess x0 a b).qs.id = 0
    have := core_qs hac
    rw [this]; exact hx0qs
  have hsw : sweepSess (scSess y P.u .q).1.1 P.u s.now = ((scSess y P.u .q).1.1, []) := by
    unfold sweepSess
    rw [if_neg (by intro hc; exact hc.2.1 (by rw [hqs2]; exact hyqs))]
  simp only at hit
  rw [hsw, hev] at hit
  have hdn : y.downenc = (getUser s P.u).downenc := by
    subst hy
    show (ackSess x0 a b).downenc = _
    have := core_downenc hac
    rw [this]; subst hx0; rfl
  have hg : getUser { putUser s P.u (scSess y P.u .q).1.1 with now := s.now } P.u = (scSess y P.u .q).1.1 := by
    rw [getUser_withNow, getUser_putUser_self _ _ _ hu]
  refine ⟨_, _, _, pkt, hit, ?_, ?_, ?_, ?_, ?_⟩
  · simp only [List.append_nil, downOfEvents_append, downOfEvents_sweep, downOfEvents_writeDns _ _ _ _ hQ.from_]
  · simp only [List.append_nil, tunOfSEvents_append, tunOfSEvents_writeDns, tunOfSEvents_sweep]
  · refine ⟨(hS.solo.putUser _).withNow _, hS.td, rfl, rfl, ?_, ?_⟩
    · rw [hg, hx0, hy]
    · rw [hx0, hy, hev, hdn]
  · rw [hg]
    have hy1A : Aged P y1 k 1 := hyA.congr hm1.1 hm1.2.1 hm1.2.2.2.2.1 hm1.2.2.2.2.2
    have := hy1A.memo_ping hP.hu Q pkt hpl hQ.c0 cp hcp hfl
    exact this.congr hm2.1 hm2.2.1 hm2.2.2.2.2.1 hm2.2.2.2.2.2
  · rw [hg]
    have hy1P : PAged P y1 sd 1 := hyP.congr hm1.2.2.1 hm1.2.2.2.1 hm1.2.2.2.2.1 hm1.2.2.2.2.2
    have := (hy1P.step hQ.sdlt (by omega)).memo Q pkt hpl sd 1 ⟨by omega, by omega⟩ (behind_next16 sd hQ.sdlt) hQ.c0 cp hcp hfl hf2 hf3 hQ.seed
    exact this.congr hm2.2.2.1 hm2.2.2.2.1 hm2.2.2.2.2.1 hm2.2.2.2.2.2

/-- the slot after a ping was HELD -/
structure AfterHold (P : Par) (s s' : Srv) (Q : Query) (a b : Int) : Prop where
  solo : Solo P.u s'
  td : s'.cfg.topdomain = P.td
  cfg : s'.cfg = s.cfg
  now : s'.now = s.now
  slot : getUser s' P.u = saveQ (ackSess { getUser s P.u with qsNew := false } a b) Q s.now

/-- A ping reaches the server in lazy mode while no query is held and the acknowledged outpacket has nothing left: the
ping is stored and HELD; nothing is sent, the memories are untouched. -/
theorem srv_ping_lazy_hold {P : Par} (hP : P.Ok) {s : Srv} (hS : SStat P s)
    (hq : (getUser s P.u).q.id = 0) (hqs : (getUser s P.u).qs.id = 0) (hlz : (getUser s P.u).lazy = true)
    (hoq : (getUser s P.u).oqFilled = 0)
    {Q : Query} {a b : Int} {sd : Nat} (hQ : PingQ P Q a b sd) (hPA : PAged P (getUser s P.u) sd 1)
    (hlen : (ackSess { getUser s P.u with qsNew := false } a b).outpacket.len = 0) :
    ∃ s' evs t, iteration s (.q Q) s.now = (s', evs, t) ∧ downOfEvents evs = [] ∧ tunOfSEvents evs = [] ∧
      AfterHold P s s' Q a b ∧ SameMem (getUser s P.u) (getUser s' P.u) := by
  obtain ⟨dlen, hdl, h2, h4, huid, ha, hb, hc2, hc3⟩ := hQ.parse
  have htop := topSess_live hS
  have hu := hS.solo.lt
  generalize hx0 : ({ getUser s P.u with qsNew := false } : Session) = x0 at htop hlen
  have hx0q : x0.q.id = 0 := by subst hx0; exact hq
  have hx0qs : x0.qs.id = 0 := by subst hx0; exact hqs
  have hx0lz : x0.lazy = true := by subst hx0; exact hlz
  have hx0oq : x0.oqFilled = 0 := by subst hx0; exact hoq
  have hx0P : PAged P x0 sd 1 := by subst hx0; exact hPA.congr rfl rfl rfl rfl
  have hit := iteration_ping hS.solo Q s.now dlen (by rw [hS.td]; exact hdl) h2 hQ.c0 (hQ.ty ▸ hP.tty) hQ.id h4 huid
    (admitted_entry hS Q hQ.from_)
    (by rw [htop]; exact hx0P.cacheMiss hQ.sdlt (by omega) Q hQ.ty hQ.c0 hQ.seed)
    (by rw [htop]; exact hx0P.qmemMiss hQ.sdlt (by omega) Q hQ.ty _ hc2 hc3)
    (by rw [htop]; exact Or.inl hx0q) (by rw [htop]; exact Or.inl hx0qs)
  rw [htop, ha, hb, pingSess_lazy_hold x0 P.u Q a b s.now hx0q hx0qs hx0lz hx0oq hlen] at hit
  have hac := ackSess_core x0 a b hx0oq
  have hsm := ackSess_sameMem x0 a b hx0oq
  generalize hy : saveQ (ackSess x0 a b) Q s.now = y at hit
  have hyqs : y.qs.id = 0 := by
    subst hy
    show (ackSess x0 a b).qs.id = 0
    have := core_qs hac
    rw [this]; exact hx0qs
  have hsw : sweepSess y P.u s.now = (y, []) := by
    unfold sweepSess
    rw [if_neg (by intro hc; exact hc.2.1 hyqs)]
  simp only at hit
  rw [hsw] at hit
  have hg : getUser { putUser s P.u y with now := s.now } P.u = y := by
    rw [getUser_withNow, getUser_putUser_self _ _ _ hu]
  refine ⟨_, _, _, hit, rfl, rfl, ⟨(hS.solo.putUser _).withNow _, hS.td, rfl, rfl, ?_⟩, ?_⟩
  · rw [hg, hx0, hy]
  · rw [hg]
    subst hy; subst hx0
    exact hsm

/-- what a held ping leaves of the static facts, given the outpacket after the ack -/
theorem afterHold_stat {P : Par} {s s' : Srv} {Q : Query} {a b : Int} (hS : SStat P s)
    (hoq : (getUser s P.u).oqFilled = 0) (hap : AfterHold P s s' Q a b)
    (hos : 0 ≤ (ackSess { getUser s P.u with qsNew := false } a b).outpacket.seqno ∧
      (ackSess { getUser s P.u with qsNew := false } a b).outpacket.seqno < 8)
    (hof : 0 ≤ (ackSess { getUser s P.u with qsNew := false } a b).outpacket.fragment ∧
      (ackSess { getUser s P.u with qsNew := false } a b).outpacket.fragment < 16) :
    SStat P s' ∧ (getUser s' P.u).q = Q ∧ (getUser s' P.u).qs = (getUser s P.u).qs ∧
    (getUser s' P.u).lazy = (getUser s P.u).lazy ∧ (getUser s' P.u).oqFilled = 0 ∧
    (getUser s' P.u).fragsize = (getUser s P.u).fragsize ∧ (getUser s' P.u).inpacket = (getUser s P.u).inpacket ∧
    (getUser s' P.u).tunIp = (getUser s P.u).tunIp ∧
    (getUser s' P.u).outpacket = (ackSess { getUser s P.u with qsNew := false } a b).outpacket := by
  generalize hx0 : ({ getUser s P.u with qsNew := false } : Session) = x0 at hap hos hof
  have hslot : getUser s' P.u = saveQ (ackSess x0 a b) Q s.now := by rw [hap.slot, hx0]
  have hx0oq : x0.oqFilled = 0 := by subst hx0; exact hoq
  have h1 : rest (ackSess x0 a b) = rest x0 := by have := rest_of_core (ackSess_core x0 a b hx0oq); exact this
  have hr : rest (getUser s' P.u) = rest x0 := by rw [hslot, rest_saveQ]; exact h1
  have hrx : rest x0 = rest (getUser s P.u) := by subst hx0; rfl
  have hr' := hr.trans hrx
  have hop : (getUser s' P.u).outpacket = (ackSess x0 a b).outpacket := by rw [hslot]; rfl
  refine ⟨⟨hap.solo, hap.td, ?_, ?_, ?_⟩, by rw [hslot]; rfl, rest_qs hr', rest_lazy hr', ?_, rest_fragsize hr', rest_inpacket hr',
    rest_tunIp hr', hop⟩
  · exact ⟨(rest_active hr').trans hS.x.active, (rest_authenticated hr').trans hS.x.auth, (rest_disabled hr').trans hS.x.enabled,
      (rest_conn hr').trans hS.x.conn, (rest_encoder hr').trans hS.x.enc, by rw [hop]; exact hos, by rw [hop]; exact hof,
      by rw [rest_inpacket hr']; exact hS.x.iseq, by rw [rest_inpacket hr']; exact hS.x.ifrag⟩
  · rw [hap.cfg, rest_host hr']; exact hS.host
  · rw [hap.now, hslot]; show s.now < s.now + 60; omega
  · rw [rest_oqFilled hr']; exact hoq

end server

end Iodine.C02L
