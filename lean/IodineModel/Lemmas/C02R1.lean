import IodineModel.Lemmas.C02d15
/-
RAW UDP mode, client side: what one turn of `client_tunnel`'s loop does in raw mode (`conn = CONN_RAW_UDP`) for a tun
frame, a raw data datagram and a raw ping, including the keepalive (`rawKeepalive`) that precedes both handlers.
-/
namespace Iodine.C02L
open Iodine Iodine.Gen Iodine.World

/-! ### raw datagrams -/

/-- a raw-mode datagram: the three magic bytes, command nibble | user nibble, payload -/
def rawFrame (u cmd : Nat) (payload : List Nat) : List Nat := [16, 209, 158, cmd ||| u] ++ payload

/-- the nibble arithmetic of both `send_raw`s and both decoders, for the commands DATA (32) and PING (48) -/
theorem nibble_facts : ∀ u, u < 16 →
    (32 ||| u) % 256 = (32 ||| u) ∧ (48 ||| u) % 256 = (48 ||| u) ∧ u &&& 15 = u ∧
    (32 ||| u) &&& 15 = u ∧ (32 ||| u) &&& 240 = 32 ∧ (48 ||| u) &&& 15 = u ∧ (48 ||| u) &&& 240 = 48 := by decide

theorem maskI_uid (u : Nat) (h : u < 16) : Client.maskI (u : Int) 16 = u := by
  unfold Client.maskI
  omega

theorem rawFrame_length (u cmd : Nat) (p : List Nat) : (rawFrame u cmd p).length = p.length + 4 := by
  simp [rawFrame]

/-! ### the client in raw mode -/

/-- the client's static state in the raw-mode tunnel phase, nothing being sent -/
structure RawCli (u : Nat) (c : Client.Cli) : Prop where
  running : c.running = true
  conn : c.conn = .rawUdp
  uid : c.userid = (u : Int)
  alive : ¬ c.lastdownstreamtime + 60 < c.now
  idle : c.outpkt.len = 0

/-- the raw keepalive is due: `lastrawping + selecttimeout <= time(NULL)` -/
def kaDue (c : Client.Cli) : Prop := (c.lastrawping : Int) + c.selecttimeout ≤ (c.now : Int)

instance (c : Client.Cli) : Decidable (kaDue c) := by unfold kaDue; infer_instance

/-- the datagrams the keepalive adds to the upstream direction -/
def upKa (u : Nat) (c : Client.Cli) : List UpD := if kaDue c then [.raw (rawFrame u 48 [])] else []

/-- the events of the keepalive check -/
def evKa (u : Nat) (c : Client.Cli) : List Client.CEvent := if kaDue c then [.rawtx (rawFrame u 48 [])] else []

/-- the client after the keepalive check -/
def cliKa (c : Client.Cli) : Client.Cli := if kaDue c then { c with lastrawping := c.now } else c

theorem sendRaw_ping {u : Nat} {c : Client.Cli} (huid : c.userid = (u : Int)) (hu : u < 16) :
    Client.sendRaw c [] 0 RAW_HDR_CMD_PING = .rawtx (rawFrame u 48 []) := by
  unfold Client.sendRaw rawFrame
  rw [huid, maskI_uid u hu]
  show Client.CEvent.rawtx (rawHeader.take 3 ++ [(48 ||| u) % 256] ++ _) = _
  rw [(nibble_facts u hu).2.1]
  rfl

theorem rawKeepalive_raw {u : Nat} {c : Client.Cli} (hc : RawCli u c) (hu : u < 16) :
    Client.rawKeepalive c = (cliKa c, evKa u c) := by
  unfold Client.rawKeepalive cliKa evKa
  by_cases hd : kaDue c
  · rw [if_pos ⟨by rw [hc.conn]; decide, hd⟩, if_pos hd, if_pos hd, sendRaw_ping hc.uid hu]
  · rw [if_neg (fun h => hd h.2), if_neg hd, if_neg hd]

theorem upOfEvents_ka (u : Nat) (c : Client.Cli) :
    upOfEvents (evKa u c) = upKa u c := by
  unfold upKa evKa
  split <;> rfl

theorem tunOfCEvents_ka (u : Nat) (c : Client.Cli) :
    tunOfCEvents (evKa u c) = [] := by
  unfold evKa
  split <;> rfl

theorem cliKa_frame (c : Client.Cli) : cliKa c = { c with lastrawping := (cliKa c).lastrawping } := by
  unfold cliKa
  split <;> rfl

theorem RawCli.ka {u : Nat} {c : Client.Cli} (hc : RawCli u c) : RawCli u (cliKa c) := by
  rw [cliKa_frame]
  exact ⟨hc.running, hc.conn, hc.uid, hc.alive, hc.idle⟩

theorem cliKa_lastrawping (c : Client.Cli) : (cliKa c).lastrawping = if kaDue c then c.now else c.lastrawping := by
  unfold cliKa
  split <;> rfl

/-- after the keepalive check the keepalive is not due any more (for a positive `selecttimeout`) -/
theorem cliKa_not_due (c : Client.Cli) (hsel : 0 < c.selecttimeout) : ¬ kaDue (cliKa c) := by
  unfold cliKa
  by_cases hd : kaDue c
  · rw [if_pos hd]
    unfold kaDue
    show ¬ ((c.now : Int) + c.selecttimeout ≤ c.now)
    omega
  · rw [if_neg hd]; exact hd

/-! ### a tun frame -/

/-- the client after `tunnel_tun` in raw mode: the packet was built in `outpkt` and sent at once (`outpkt.len = 0`) -/
def cliUp (c : Client.Cli) (f : List Nat) : Client.Cli := (Client.sendRawData (newPacket (cliKa c) f)).1

theorem RawCli.up {u : Nat} {c : Client.Cli} (hc : RawCli u c) (f : List Nat) : RawCli u (cliUp c f) := by
  have h := hc.ka
  exact ⟨h.running, h.conn, h.uid, h.alive, rfl⟩

theorem cliUp_facts (c : Client.Cli) (f : List Nat) :
    (cliUp c f).now = c.now ∧ (cliUp c f).selecttimeout = c.selecttimeout ∧
    (cliUp c f).lastdownstreamtime = c.lastdownstreamtime ∧ (cliUp c f).lastrawping = (cliKa c).lastrawping := by
  have e : cliUp c f = (Client.sendRawData (newPacket { c with lastrawping := (cliKa c).lastrawping } f)).1 := by
    unfold cliUp; rw [← cliKa_frame]
  rw [e]
  exact ⟨rfl, rfl, rfl, rfl⟩

/-- what `send_raw` lets through of a compressed frame: `packet[4096]` minus the 4 header bytes -/
theorem take_cut (f : List Nat) : (0x5a :: f).take (min (4096 - RAW_HDR_LEN) (f.length + 1)) = 0x5a :: f.take 4091 := by
  have e : min (4096 - RAW_HDR_LEN) (f.length + 1) = min 4091 f.length + 1 := by simp only [RAW_HDR_LEN]; omega
  rw [e, List.take_succ_cons]
  congr 1
  by_cases h : f.length ≤ 4091
  · rw [List.take_of_length_le (by omega), List.take_of_length_le h]
  · rw [show min 4091 f.length = 4091 by omega]

theorem sendRawData_evs {u : Nat} {c : Client.Cli} (huid : c.userid = (u : Int)) (hu : u < 16) (f : List Nat)
    (hlen : f.length < 65536) :
    (Client.sendRawData (newPacket c f)).2 = [.rawtx (rawFrame u 32 (0x5a :: f.take 4091))] := by
  have ht : f.take 65536 = f := List.take_of_length_le (by omega)
  have huid' : (newPacket c f).userid = (u : Int) := huid
  unfold Client.sendRawData Client.sendRaw rawFrame
  rw [huid', maskI_uid u hu]
  show [Client.CEvent.rawtx (rawHeader.take 3 ++ [(RAW_HDR_CMD_DATA ||| u) % 256] ++
    ((Client.compress (f.take 65536)).take 65536).take (min (4096 - RAW_HDR_LEN) ((f.take 65536).length + 1)))] = _
  rw [ht]
  have h1 : (Client.compress f).take 65536 = 0x5a :: f := by
    unfold Client.compress
    exact List.take_of_length_le (by simp; omega)
  rw [h1, take_cut]
  have := (nibble_facts u hu).1
  show [Client.CEvent.rawtx (rawHeader.take 3 ++ [(32 ||| u) % 256] ++ (0x5a :: f.take 4091))] = _
  rw [this]
  rfl

/-- **client, tun frame, raw mode**: keepalive if due, then the (compressed) frame in one raw datagram — the first
4091 bytes of it: `send_raw` cuts the compressed packet at `4096 - 4` bytes -/
theorem cstep_raw_tun {u : Nat} {c : Client.Cli} (hc : RawCli u c) (hu : u < 16) (f : List Nat) (hne : f ≠ [])
    (hlen : f.length < 65536) :
    Client.cstep ⟨c, .tunnel⟩ (.tun f) =
      (⟨cliUp c f, .tunnel⟩, evKa u c ++ [.rawtx (rawFrame u 32 (0x5a :: f.take 4091))],
       .sel (Client.selectOf (cliUp c f))) := by
  have hs : Client.isSending c = false := by simp [Client.isSending, hc.idle]
  show Client.tunnelStep c (.tun f) = _
  have hcd : (c.conn = Client.Conn.dnsNull) = False := by rw [hc.conn]; simp
  rw [tunnelStep_tun_accept_raw c f hc.running hc.alive hs hne, rawKeepalive_raw hc hu]
  simp only [hcd, if_false, Client.settle, Client.loopTop]
  have hr : (Client.sendRawData (newPacket (cliKa c) f)).1.running = true := hc.ka.running
  rw [if_pos hr, sendRawData_evs hc.ka.uid hu f hlen]
  rfl

/-! ### a raw datagram from the server -/

/-- the client after a raw DATA or PING datagram of its own user id: `lastdownstreamtime = time(NULL)` -/
def cliDown (c : Client.Cli) : Client.Cli := { cliKa c with lastdownstreamtime := (cliKa c).now }

theorem RawCli.down {u : Nat} {c : Client.Cli} (hc : RawCli u c) : RawCli u (cliDown c) := by
  have h := hc.ka
  have hn : (cliKa c).now = c.now := by rw [cliKa_frame]
  refine ⟨h.running, h.conn, h.uid, ?_, h.idle⟩
  show ¬ (cliKa c).now + 60 < (cliKa c).now
  omega

theorem cliDown_facts (c : Client.Cli) :
    (cliDown c).now = c.now ∧ (cliDown c).selecttimeout = c.selecttimeout ∧
    (cliDown c).lastdownstreamtime = c.now ∧ (cliDown c).lastrawping = (cliKa c).lastrawping := by
  have hn : (cliKa c).now = c.now := by rw [cliKa_frame]
  have hs : (cliKa c).selecttimeout = c.selecttimeout := by rw [cliKa_frame]
  exact ⟨hn, hs, hn, rfl⟩

/-- `read_dns_withq` (raw half) on a DATA datagram of the own user id carrying a compressed frame -/
theorem readRaw_data {u : Nat} {c : Client.Cli} (huid : c.userid = (u : Int)) (hu : u < 16) (f : List Nat)
    (hlen : f.length + 5 ≤ 65536) :
    Client.readRaw c (rawFrame u 32 (0x5a :: f)) = ({ c with lastdownstreamtime := c.now }, [Client.writeTun f]) := by
  obtain ⟨_, _, _, n1, n2, _, _⟩ := nibble_facts u hu
  have ht : (rawFrame u 32 (0x5a :: f)).take 65536 = rawFrame u 32 (0x5a :: f) :=
    List.take_of_length_le (by rw [rawFrame_length]; simp; omega)
  unfold Client.readRaw
  rw [ht]
  simp only [rawFrame, List.cons_append, List.nil_append, List.length_cons, RAW_HDR_LEN, rawHeader,
    RAW_HDR_USR_MASK, RAW_HDR_CMD_MASK, RAW_HDR_CMD_DATA, RAW_HDR_CMD_PING]
  have h1 : ¬ (f.length + 1 + 1 + 1 + 1 + 1 < 4) := by omega
  have h2 : f.length ≤ 65536 := by omega
  simp [h1, h2, n1, n2, huid, Client.uncompress]

/-- … on a PING datagram of the own user id -/
theorem readRaw_ping {u : Nat} {c : Client.Cli} (huid : c.userid = (u : Int)) (hu : u < 16) :
    Client.readRaw c (rawFrame u 48 []) = ({ c with lastdownstreamtime := c.now }, []) := by
  obtain ⟨_, _, _, _, _, n1, n2⟩ := nibble_facts u hu
  unfold Client.readRaw
  simp [rawFrame, RAW_HDR_LEN, rawHeader, RAW_HDR_USR_MASK, RAW_HDR_CMD_MASK, RAW_HDR_CMD_DATA, RAW_HDR_CMD_PING, n1, n2, huid]

theorem cstep_raw_dns {u : Nat} {c : Client.Cli} (hc : RawCli u c) (hu : u < 16) (b : List Nat) (evs : List Client.CEvent)
    (hread : Client.readRaw (cliKa c) b = ({ cliKa c with lastdownstreamtime := (cliKa c).now }, evs)) :
    Client.cstep ⟨c, .tunnel⟩ (.rawans b) =
      (⟨cliDown c, .tunnel⟩, evKa u c ++ evs,
       .sel (Client.selectOf (cliDown c))) := by
  have hfire : Client.fire c (Client.selectOf c) (.rawans b) = (c, .dns (.rawans b)) := rfl
  have hn : (cliKa c).now = c.now := by rw [cliKa_frame]
  show Client.tunnelStep c (.rawans b) = _
  rw [tunnelStep_alive_raw c _ hc.running (by rw [hfire]; exact hc.alive), hfire]
  simp only
  rw [rawKeepalive_raw hc hu]
  unfold Client.tunnelDnsInput
  rw [if_neg (by rw [hc.ka.conn]; decide)]
  have hr : ({ cliKa c with lastdownstreamtime := (cliKa c).now } : Client.Cli).running = true := hc.ka.running
  simp only [Client.tunnelDnsRaw, hread, Client.settle, Client.loopTop]
  rw [if_pos hr]
  rfl

/-- **client, raw DATA datagram**: keepalive if due, `lastdownstreamtime` refreshed, the frame written to tun -/
theorem cstep_raw_data {u : Nat} {c : Client.Cli} (hc : RawCli u c) (hu : u < 16) (f : List Nat) (hlen : f.length + 5 ≤ 65536) :
    Client.cstep ⟨c, .tunnel⟩ (.rawans (rawFrame u 32 (0x5a :: f))) =
      (⟨cliDown c, .tunnel⟩, evKa u c ++ [Client.writeTun f],
       .sel (Client.selectOf (cliDown c))) :=
  cstep_raw_dns hc hu _ _ (readRaw_data hc.ka.uid hu f hlen)

/-- **client, raw PING datagram**: keepalive if due, `lastdownstreamtime` refreshed, nothing else -/
theorem cstep_raw_ping {u : Nat} {c : Client.Cli} (hc : RawCli u c) (hu : u < 16) :
    Client.cstep ⟨c, .tunnel⟩ (.rawans (rawFrame u 48 [])) =
      (⟨cliDown c, .tunnel⟩, evKa u c ++ [],
       .sel (Client.selectOf (cliDown c))) :=
  cstep_raw_dns hc hu _ _ (readRaw_ping hc.ka.uid hu)

end Iodine.C02L
