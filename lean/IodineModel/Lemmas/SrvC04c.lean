import IodineModel.Lemmas.SrvC04a
/-
Helper lemmas for C04, part c: the access checks, and "a rejected request changes nothing".
-/
namespace Iodine.C04L
open Iodine Iodine.Server Iodine.Gen

/-! ### when `check_user_and_ip` rejects -/

theorem checkUserAndIp_range (s : Srv) (u : Int) (q : Query) (h : u < 0 ∨ u ≥ (s.cfg.createdUsers : Int)) :
    checkUserAndIp s u q = true := by
  unfold checkUserAndIp; rw [if_pos h]

theorem checkUserAndIp_inactive (s : Srv) (u : Int) (q : Query)
    (h : (getUser s u.toNat).active = false ∨ (getUser s u.toNat).disabled = true) :
    checkUserAndIp s u q = true := by
  unfold checkUserAndIp
  split
  · rfl
  · dsimp only
    rw [if_pos]
    rcases h with h | h <;> simp [h]

theorem checkUserAndIp_expired (s : Srv) (u : Int) (q : Query)
    (h : (getUser s u.toNat).lastPkt + 60 < s.now) : checkUserAndIp s u q = true := by
  unfold checkUserAndIp
  split
  · rfl
  · dsimp only
    split
    · rfl
    · first | rfl | rw [if_pos h]

/-- with `check_ip`, a request whose source differs from the bound host in family or address is rejected -/
theorem checkUserAndIp_foreign (s : Srv) (u : Int) (q : Query) (hck : s.cfg.checkIp = true)
    (h : ¬ (q.from_.fam = (getUser s u.toNat).host.fam ∧ q.from_.ip = (getUser s u.toNat).host.ip)) :
    checkUserAndIp s u q = true := by
  unfold checkUserAndIp
  split
  · rfl
  · dsimp only
    split
    · rfl
    split
    · rfl
    rw [if_neg (by simp [hck])]
    split
    · rfl
    · next hf =>
      have hf' : q.from_.fam = (getUser s u.toNat).host.fam := by
        by_cases e : q.from_.fam = (getUser s u.toNat).host.fam
        · exact e
        · exact absurd e hf
      have hip : ¬ (getUser s u.toNat).host.ip = q.from_.ip := fun e => h ⟨hf', e.symm⟩
      split
      · simp [hip]
      · split
        · simp [hip]
        · rfl

/-- the check accepts exactly the in-range, active, enabled, recently heard slots (and, with `check_ip`, only from the
bound family+address, which must be v4 or v6) -/
theorem checkUserAndIp_false (s : Srv) (u : Int) (q : Query) (h : checkUserAndIp s u q = false) :
    0 ≤ u ∧ u < (s.cfg.createdUsers : Int) ∧ (getUser s u.toNat).active = true ∧ (getUser s u.toNat).disabled = false ∧
    ¬ (getUser s u.toNat).lastPkt + 60 < s.now ∧
    (s.cfg.checkIp = true → q.from_.fam = (getUser s u.toNat).host.fam ∧ q.from_.ip = (getUser s u.toNat).host.ip) := by
  unfold checkUserAndIp at h
  split at h
  · cases h
  · next h0 =>
    dsimp only at h
    split at h
    · cases h
    next h1 =>
    split at h
    · cases h
    next h2 =>
    have h1' : (getUser s u.toNat).active = true ∧ (getUser s u.toNat).disabled = false := by
      cases ha : (getUser s u.toNat).active <;> cases hb : (getUser s u.toNat).disabled <;> simp [ha, hb] at h1 ⊢
    refine ⟨by omega, by omega, h1'.1, h1'.2, h2, ?_⟩
    intro hck
    rw [if_neg (by simp [hck])] at h
    split at h
    · cases h
    next h3 =>
    have h3' : q.from_.fam = (getUser s u.toNat).host.fam := by
      by_cases e : q.from_.fam = (getUser s u.toNat).host.fam
      · exact e
      · exact absurd e h3
    refine ⟨h3', ?_⟩
    split at h
    · simp at h; exact h.symm
    · split at h
      · simp at h; exact h.symm
      · cases h

theorem checkAuth_of_check (s : Srv) (u : Int) (q : Query) (h : checkUserAndIp s u q = true) :
    checkAuthenticatedUserAndIp s u q = true := by
  unfold checkAuthenticatedUserAndIp; rw [if_pos h]

theorem checkAuth_unauth (s : Srv) (u : Int) (q : Query) (h : (getUser s u.toNat).authenticated = false) :
    checkAuthenticatedUserAndIp s u q = true := by
  unfold checkAuthenticatedUserAndIp
  split
  · rfl
  · rw [if_pos (by simp [h])]

theorem checkAuth_false (s : Srv) (u : Int) (q : Query) (h : checkAuthenticatedUserAndIp s u q = false) :
    checkUserAndIp s u q = false ∧ (getUser s u.toNat).authenticated = true := by
  unfold checkAuthenticatedUserAndIp at h
  split at h
  · cases h
  · next h1 =>
    split at h
    · cases h
    · next h2 =>
      refine ⟨by simpa using h1, by simpa using h2⟩

theorem checkAuthOpt_of_checkAuth (s : Srv) (u : Int) (q : Query) (h : checkAuthenticatedUserAndIp s u q = true) :
    checkAuthenticatedUserAndIpAndOptions s u q = true := by
  unfold checkAuthenticatedUserAndIpAndOptions
  dsimp only
  rw [h]; simp

theorem checkAuthOpt_false (s : Srv) (u : Int) (q : Query) (h : checkAuthenticatedUserAndIpAndOptions s u q = false) :
    checkAuthenticatedUserAndIp s u q = false := by
  cases h' : checkAuthenticatedUserAndIp s u q
  · rfl
  · rw [checkAuthOpt_of_checkAuth s u q h'] at h; cases h

/-! ### the commands that name a session -/

/-- the commands of `handle_null_request` that carry a userid -/
inductive Cmd where
  | login | ip | switch | options | probe | setfrag | ping | data
deriving DecidableEq, Repr

/-- the command selected by the first character, in the order of the C `if` cascade; `none` for V, Z, Y and
unknown characters -/
def cmdOf (c : Nat) : Option Cmd :=
  if c = 86 ∨ c = 118 then none
  else if c = 76 ∨ c = 108 then some .login
  else if c = 73 ∨ c = 105 then some .ip
  else if c = 90 ∨ c = 122 then none
  else if c = 83 ∨ c = 115 then some .switch
  else if c = 79 ∨ c = 111 then some .options
  else if c = 89 ∨ c = 121 then none
  else if c = 82 ∨ c = 114 then some .probe
  else if c = 78 ∨ c = 110 then some .setfrag
  else if c = 80 ∨ c = 112 then some .ping
  else if isHexDigit c then some .data
  else none

theorem cmdOf_login (c : Nat) (h : cmdOf c = some .login) : c = 76 ∨ c = 108 := by
  by_cases hc : c = 76 ∨ c = 108
  · exact hc
  · exfalso
    unfold cmdOf at h
    by_cases n0 : c = 86 ∨ c = 118
    · rw [if_pos n0] at h; cases h
    rw [if_neg n0, if_neg hc] at h
    by_cases m0 : c = 73 ∨ c = 105
    · rw [if_pos m0] at h; cases h
    rw [if_neg m0] at h
    by_cases m1 : c = 90 ∨ c = 122
    · rw [if_pos m1] at h; cases h
    rw [if_neg m1] at h
    by_cases m2 : c = 83 ∨ c = 115
    · rw [if_pos m2] at h; cases h
    rw [if_neg m2] at h
    by_cases m3 : c = 79 ∨ c = 111
    · rw [if_pos m3] at h; cases h
    rw [if_neg m3] at h
    by_cases m4 : c = 89 ∨ c = 121
    · rw [if_pos m4] at h; cases h
    rw [if_neg m4] at h
    by_cases m5 : c = 82 ∨ c = 114
    · rw [if_pos m5] at h; cases h
    rw [if_neg m5] at h
    by_cases m6 : c = 78 ∨ c = 110
    · rw [if_pos m6] at h; cases h
    rw [if_neg m6] at h
    by_cases m7 : c = 80 ∨ c = 112
    · rw [if_pos m7] at h; cases h
    rw [if_neg m7] at h
    by_cases mh : isHexDigit c = true
    · rw [if_pos mh] at h; cases h
    · rw [if_neg mh] at h; cases h

/-- `in[]` of `handle_null_request` -/
def inbOf (q : Query) (dlen : Nat) : List Nat := q.name.take (min dlen 512)

/-- `unpacked[]` of the L, N, P handlers -/
def unpOf (q : Query) (dlen : Nat) : List Nat := Encoding.unpackData Codec.b32 65536 ((inbOf q dlen).drop 1)

/-- the userid the handler of `cmd` extracts -/
def uidOf (q : Query) (dlen : Nat) : Cmd → Int
  | .login | .setfrag | .ping => charVal ((unpOf q dlen).getD 0 0)
  | .ip | .switch | .options => (b32_8to5 ((inbOf q dlen).getD 1 0) : Nat)
  | .probe => (((b32_8to5 ((inbOf q dlen).getD 1 0)) >>> 1) &&& 15 : Nat)
  | .data => hexCode ((inbOf q dlen).getD 0 0)

/-- the access check the handler of `cmd` applies -/
def rejected (s : Srv) (q : Query) (u : Int) : Cmd → Bool
  | .login => checkUserAndIp s u q
  | .ip | .probe | .ping | .data => checkAuthenticatedUserAndIp s u q
  | .switch | .options | .setfrag => checkAuthenticatedUserAndIpAndOptions s u q

def badip (q : Query) : Event := writeDns q (ascii "BADIP") chT
def badlen (q : Query) : Event := writeDns q (ascii "BADLEN") chT

/-- what a rejected request is answered with -/
def refusalOf (q : Query) (dlen : Nat) : Cmd → List Event
  | .login => if (unpOf q dlen).length < 17 then [badlen q] else [badip q]
  | .ip => [badip q]
  | .switch | .options => if dlen < 3 then [badlen q] else [badip q]
  | .probe => if dlen < 16 then [badlen q] else [badip q]
  | .setfrag => if (unpOf q dlen).length < 3 then [badlen q] else [badip q]
  | .ping => if q.id = 0 ∨ (unpOf q dlen).length < 4 then [] else [badip q]
  | .data => if dlen < 6 ∨ q.id = 0 then [] else [badip q]

theorem rejected_of_check (s : Srv) (q : Query) (u : Int) (cmd : Cmd) (h : checkUserAndIp s u q = true) :
    rejected s q u cmd = true := by
  cases cmd <;> unfold rejected <;> dsimp only
  all_goals first
    | exact h
    | exact checkAuth_of_check s u q h
    | exact checkAuthOpt_of_checkAuth s u q (checkAuth_of_check s u q h)

theorem rejected_of_unauth (s : Srv) (q : Query) (u : Int) (cmd : Cmd) (hc : cmd ≠ .login)
    (h : (getUser s u.toNat).authenticated = false) : rejected s q u cmd = true := by
  cases cmd <;> unfold rejected <;> dsimp only
  all_goals first
    | exact absurd rfl hc
    | exact checkAuth_unauth s u q h
    | exact checkAuthOpt_of_checkAuth s u q (checkAuth_unauth s u q h)

theorem rejected_false (s : Srv) (q : Query) (u : Int) (cmd : Cmd) (h : rejected s q u cmd = false) :
    checkUserAndIp s u q = false ∧ (cmd ≠ .login → (getUser s u.toNat).authenticated = true) := by
  cases cmd <;> unfold rejected at h <;> dsimp only at h
  all_goals first
    | exact ⟨h, fun hc => absurd rfl hc⟩
    | exact ⟨(checkAuth_false s u q h).1, fun _ => (checkAuth_false s u q h).2⟩
    | exact ⟨(checkAuth_false s u q (checkAuthOpt_false s u q h)).1,
             fun _ => (checkAuth_false s u q (checkAuthOpt_false s u q h)).2⟩

/-! ### a rejected request changes nothing, handler by handler -/

theorem handleLogin_refused (s : Srv) (q : Query) (dlen : Nat)
    (h : rejected s q (uidOf q dlen .login) .login = true) :
    handleLogin s q (inbOf q dlen) = (s, refusalOf q dlen .login) := by
  unfold handleLogin refusalOf
  dsimp only
  unfold rejected uidOf at h
  dsimp only at h
  unfold unpOf at h ⊢
  split
  · rfl
  · first | rfl | (rw [if_pos h]; rfl)

theorem handleIp_refused (s : Srv) (q : Query) (dlen : Nat)
    (h : rejected s q (uidOf q dlen .ip) .ip = true) :
    handleIp s q (inbOf q dlen) = (s, refusalOf q dlen .ip) := by
  unfold handleIp refusalOf
  dsimp only
  unfold rejected uidOf at h
  dsimp only at h
  rw [if_pos h]; rfl

theorem handleSwitchCodec_refused (s : Srv) (q : Query) (dlen : Nat)
    (h : rejected s q (uidOf q dlen .switch) .switch = true) :
    handleSwitchCodec s q dlen (inbOf q dlen) = (s, refusalOf q dlen .switch) := by
  unfold handleSwitchCodec refusalOf
  dsimp only
  unfold rejected uidOf at h
  dsimp only at h
  split
  · rfl
  · first | rfl | (rw [if_pos h]; rfl)

theorem handleOptions_refused (s : Srv) (q : Query) (dlen : Nat)
    (h : rejected s q (uidOf q dlen .options) .options = true) :
    handleOptions s q dlen (inbOf q dlen) = (s, refusalOf q dlen .options) := by
  unfold handleOptions refusalOf
  dsimp only
  unfold rejected uidOf at h
  dsimp only at h
  split
  · rfl
  · first | rfl | (rw [if_pos h]; rfl)

theorem handleFragsizeProbe_refused (s : Srv) (q : Query) (dlen : Nat)
    (h : rejected s q (uidOf q dlen .probe) .probe = true) :
    handleFragsizeProbe s q dlen (inbOf q dlen) = (s, refusalOf q dlen .probe) := by
  unfold handleFragsizeProbe refusalOf
  dsimp only
  unfold rejected uidOf at h
  dsimp only at h
  split
  · rfl
  · first | rfl | (rw [if_pos h]; rfl)

theorem handleSetFragsize_refused (s : Srv) (q : Query) (dlen : Nat)
    (h : rejected s q (uidOf q dlen .setfrag) .setfrag = true) :
    handleSetFragsize s q (inbOf q dlen) = (s, refusalOf q dlen .setfrag) := by
  unfold handleSetFragsize refusalOf
  dsimp only
  unfold rejected uidOf at h
  dsimp only at h
  unfold unpOf at h ⊢
  split
  · rfl
  · first | rfl | (rw [if_pos h]; rfl)

theorem handlePing_refused (s : Srv) (q : Query) (dlen : Nat)
    (h : rejected s q (uidOf q dlen .ping) .ping = true) :
    handlePing s q (inbOf q dlen) = (s, refusalOf q dlen .ping) := by
  unfold handlePing refusalOf
  dsimp only
  unfold rejected uidOf at h
  dsimp only at h
  unfold unpOf at h ⊢
  split
  · next h0 => rw [if_pos (Or.inl h0)]
  · next h0 =>
    split
    · next h1 => rw [if_pos (Or.inr h1)]
    · next h1 =>
      rw [if_neg (by intro hh; rcases hh with hh | hh; exact h0 hh; exact h1 hh)]
      first | rfl | (rw [if_pos h]; rfl)

theorem handleData_refused (s : Srv) (q : Query) (dlen : Nat)
    (h : rejected s q (uidOf q dlen .data) .data = true) :
    handleData s q dlen (inbOf q dlen) = (s, refusalOf q dlen .data) := by
  unfold handleData refusalOf
  dsimp only
  unfold rejected uidOf at h
  dsimp only at h
  split
  · next h0 => rw [if_pos (Or.inl h0)]
  · next h0 =>
    split
    · next h1 => rw [if_pos (Or.inr h1)]
    · next h1 =>
      rw [if_neg (by intro hh; rcases hh with hh | hh; exact h0 hh; exact h1 hh)]
      first | rfl | (rw [if_pos h]; rfl)

/-- which handler `handle_null_request` runs for a command that names a session -/
def runCmd (s : Srv) (q : Query) (dlen : Nat) : Cmd → Res
  | .login => handleLogin s q (inbOf q dlen)
  | .ip => handleIp s q (inbOf q dlen)
  | .switch => handleSwitchCodec s q dlen (inbOf q dlen)
  | .options => handleOptions s q dlen (inbOf q dlen)
  | .probe => handleFragsizeProbe s q dlen (inbOf q dlen)
  | .setfrag => handleSetFragsize s q (inbOf q dlen)
  | .ping => handlePing s q (inbOf q dlen)
  | .data => handleData s q dlen (inbOf q dlen)

theorem handleNullRequest_cmd (s : Srv) (q : Query) (dlen : Nat) (cmd : Cmd) (h2 : 2 ≤ dlen)
    (hc : cmdOf ((inbOf q dlen).getD 0 0) = some cmd) :
    handleNullRequest s q dlen = runCmd s q dlen cmd := by
  unfold handleNullRequest
  rw [if_neg (by omega)]
  dsimp only
  have hi : List.take (min dlen 512) q.name = inbOf q dlen := rfl
  rw [hi]
  generalize hcdef : (inbOf q dlen).getD 0 0 = c at hc ⊢
  unfold cmdOf at hc
  by_cases n0 : c = 86 ∨ c = 118
  · rw [if_pos n0] at hc
    cases hc
  rw [if_neg n0] at hc ⊢
  by_cases n1 : c = 76 ∨ c = 108
  · rw [if_pos n1] at hc
    cases hc
    rw [if_pos n1]; rfl
  rw [if_neg n1] at hc ⊢
  by_cases n2 : c = 73 ∨ c = 105
  · rw [if_pos n2] at hc
    cases hc
    rw [if_pos n2]; rfl
  rw [if_neg n2] at hc ⊢
  by_cases n3 : c = 90 ∨ c = 122
  · rw [if_pos n3] at hc
    cases hc
  rw [if_neg n3] at hc ⊢
  by_cases n4 : c = 83 ∨ c = 115
  · rw [if_pos n4] at hc
    cases hc
    rw [if_pos n4]; rfl
  rw [if_neg n4] at hc ⊢
  by_cases n5 : c = 79 ∨ c = 111
  · rw [if_pos n5] at hc
    cases hc
    rw [if_pos n5]; rfl
  rw [if_neg n5] at hc ⊢
  by_cases n6 : c = 89 ∨ c = 121
  · rw [if_pos n6] at hc
    cases hc
  rw [if_neg n6] at hc ⊢
  by_cases n7 : c = 82 ∨ c = 114
  · rw [if_pos n7] at hc
    cases hc
    rw [if_pos n7]; rfl
  rw [if_neg n7] at hc ⊢
  by_cases n8 : c = 78 ∨ c = 110
  · rw [if_pos n8] at hc
    cases hc
    rw [if_pos n8]; rfl
  rw [if_neg n8] at hc ⊢
  by_cases n9 : c = 80 ∨ c = 112
  · rw [if_pos n9] at hc
    cases hc
    rw [if_pos n9]; rfl
  rw [if_neg n9] at hc ⊢
  by_cases nh : isHexDigit c = true
  · rw [if_pos nh] at hc
    cases hc
    rw [if_pos nh]; rfl
  · rw [if_neg nh] at hc; cases hc

theorem runCmd_refused (s : Srv) (q : Query) (dlen : Nat) (cmd : Cmd)
    (h : rejected s q (uidOf q dlen cmd) cmd = true) : runCmd s q dlen cmd = (s, refusalOf q dlen cmd) := by
  cases cmd <;> unfold runCmd <;> dsimp only
  · exact handleLogin_refused s q dlen h
  · exact handleIp_refused s q dlen h
  · exact handleSwitchCodec_refused s q dlen h
  · exact handleOptions_refused s q dlen h
  · exact handleFragsizeProbe_refused s q dlen h
  · exact handleSetFragsize_refused s q dlen h
  · exact handlePing_refused s q dlen h
  · exact handleData_refused s q dlen h

/-! ### tunnel_dns: which queries reach `handle_null_request` -/

/-- the test for the `ns.<topdomain>` A query -/
def isNsA (q : Query) (dlen : Nat) : Prop :=
  dlen = 3 ∧ q.type = T_A ∧ (q.name.getD 0 0 = 110 ∨ q.name.getD 0 0 = 78) ∧
    (q.name.getD 1 0 = 115 ∨ q.name.getD 1 0 = 83) ∧ q.name.getD 2 0 = 46

/-- the test for the `www.<topdomain>` A query -/
def isWwwA (q : Query) (dlen : Nat) : Prop :=
  dlen = 4 ∧ q.type = T_A ∧ (q.name.getD 0 0 = 119 ∨ q.name.getD 0 0 = 87) ∧
    (q.name.getD 1 0 = 119 ∨ q.name.getD 1 0 = 87) ∧ (q.name.getD 2 0 = 119 ∨ q.name.getD 2 0 = 87) ∧
    q.name.getD 3 0 = 46

def tunnelType (t : Nat) : Prop :=
  t = T_NULL ∨ t = T_PRIVATE ∨ t = T_CNAME ∨ t = T_A ∨ t = T_MX ∨ t = T_SRV ∨ t = T_TXT

theorem queryDatalen_some_len (name td : List Nat) (dlen : Nat) (h : Common.queryDatalen name td = some dlen) :
    3 ≤ name.length := by
  unfold Common.queryDatalen at h
  split at h
  · cases h
  · next hc => simp at hc; omega

theorem tunnelDns_null (s : Srv) (q : Query) (dlen : Nat)
    (hd : Common.queryDatalen q.name s.cfg.topdomain = some dlen)
    (hns : ¬ isNsA q dlen) (hwww : ¬ isWwwA q dlen) (hty : tunnelType q.type) :
    tunnelDns s q = handleNullRequest s q dlen := by
  unfold tunnelDns
  have hl := queryDatalen_some_len _ _ _ hd
  rw [if_neg (by omega), hd]
  dsimp only
  unfold isNsA at hns
  unfold isWwwA at hwww
  unfold tunnelType at hty
  rw [if_neg hns, if_neg hwww, if_pos hty]

end Iodine.C04L
