import IodineModel.Client.Loop
/-
First facts about the client tunnel model (IodineModel/Client/*.lean): the ones its own comments rely on, and the
shape lemmas later property proofs (reassembly, give-up, tun selection) will start from.
-/
namespace Iodine.Client

/-- `rotateChunkid` touches only the three ids. -/
theorem rotateChunkid_lazymode (c : Cli) : (rotateChunkid c).lazymode = c.lazymode := by
  simp [rotateChunkid]

/-- `send_query` never produces the id 0. -/
theorem rotateChunkid_ne_zero (c : Cli) : (rotateChunkid c).chunkid ≠ 0 := by
  unfold rotateChunkid
  simp only
  split <;> omega

/-- The id stays a `uint16_t`. -/
theorem rotateChunkid_lt (c : Cli) : (rotateChunkid c).chunkid < 65536 := by
  unfold rotateChunkid
  simp only
  split <;> omega

/-- the three-ids window shifts by one -/
theorem rotateChunkid_window (c : Cli) :
    (rotateChunkid c).chunkidPrev = c.chunkid ∧ (rotateChunkid c).chunkidPrev2 = c.chunkidPrev := by
  simp [rotateChunkid]

theorem sendQueryPlain_lazymode (c : Cli) (h : List Nat) : (sendQueryPlain c h).1.1.lazymode = c.lazymode := by
  unfold sendQueryPlain
  simp only
  split <;> simp [rotateChunkid]

/-- The claim in the comment of `sendHandshakeQuery`: outside lazy mode the "too few answers" block of `send_query`
is dead, `send_query` is its plain head and never parks.  (`handshake_lazyoff` is only reached with
`lazymode = 0`, so the `send_query` inside `send_lazy_switch` cannot recurse into `handshake_lazyoff`.) -/
theorem sendQuery_of_not_lazy (c : Cli) (h : List Nat) (hl : c.lazymode = false) :
    sendQuery c h = ⟨(sendQueryPlain c h).1.1, (sendQueryPlain c h).1.2, false⟩ := by
  have hl' := sendQueryPlain_lazymode c h
  rw [hl] at hl'
  unfold sendQuery
  simp only
  split
  · simp [sendQueryCount, hl']
  · rfl

/-- `handshake_lazyoff` sends at most five switch queries: iteration 5 does not exist. -/
theorem lazyoffIter_five (c : Cli) (i : Nat) (hi : 5 ≤ i) : lazyoffIter c i = ⟨c, [], false⟩ := by
  unfold lazyoffIter
  have : ¬ (c.running = true ∧ i < 5) := by omega
  simp [this]

/-- Whatever was interrupted, its remaining code clears `send_ping_soon` and nothing else. -/
theorem resume_state (c : Cli) (k : Resume) : (resume c k).1 = { c with sendPingSoon := 0 } := by
  cases k <;> rfl

/-- "tun read only when `¬sending ∨ outchunkresent ≥ 2`" at the level of the `select` call. -/
theorem selectOf_tun (c : Cli) : (selectOf c).tun = true ↔ (isSending c = false ∨ c.outchunkresent ≥ 2) := by
  unfold selectOf
  cases isSending c <;> simp

/-- The DNS socket is always selected. -/
theorem selectOf_dns (c : Cli) : (selectOf c).dns = true := rfl

/-- A tun frame read while a packet is in flight is dropped: state untouched, nothing sent. -/
theorem tunnelTun_sending (c : Cli) (f : List Nat) (h : isSending c = true) :
    tunnelTun c f = (c, [], .ret (-1)) := by
  simp [tunnelTun, h]

/-- Give-up after three resends: the fourth timeout with the same fragment still unacknowledged drops the packet
(the state the ping is sent from has no packet in flight and the resend counter is back to 0). -/
theorem timeoutBranch_giveup (c : Cli) (hs : isSending c = true) (h3 : c.outchunkresent = 3) :
    timeoutBranch c =
      afterSend (sendPing { c with outpkt := { c.outpkt with offset := 0, len := 0, sentlen := 0 }, outchunkresent := 0 })
        [] .timeout := by
  unfold timeoutBranch
  simp [hs, h3]

/-- … and below three resends the same fragment is sent again with the counter incremented. -/
theorem timeoutBranch_resend (c : Cli) (hs : isSending c = true) (h3 : c.outchunkresent < 3) :
    timeoutBranch c = afterSend (sendChunk { c with outchunkresent := c.outchunkresent + 1 }) [] .timeout := by
  unfold timeoutBranch
  simp [hs, h3]

/-- An idle thread ignores every input. -/
theorem cstep_idle (c : Cli) (inp : CInput) : cstep ⟨c, .idle⟩ inp = (⟨c, .idle⟩, [], .none) := rfl

/-- The 60 s rule: once the last downstream data is more than 60 s old when `select` returns, `client_tunnel`
returns 0 without looking at what `select` delivered. -/
theorem tunnelStep_expired (c : Cli) (hexp : c.lastdownstreamtime + 60 < c.now) (q : Rq) :
    tunnelStep c (.rq q) = (⟨{ c with running := false }, .idle⟩, [], .finished 0) := by
  unfold tunnelStep
  simp [fire, afterSelect, hexp]

/-- non-vacuity of `sendQuery_of_not_lazy`'s contrapositive side: in lazy mode `send_query` does park. -/
example :
    let c : Cli := { Cli.boot with lazymode := true, selecttimeout := 1, sendcnt := 6, running := true,
                                   topdomain := [97, 46, 98, 99], doQtype := 10 }
    (sendQuery c [112, 97, 46, 97, 46, 98, 99]).parked = true := by decide +kernel

end Iodine.Client
