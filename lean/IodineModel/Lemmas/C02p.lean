import IodineModel.Props.C08
import IodineModel.Lemmas.C02s5
import IodineModel.Lemmas.C02a
import IodineModel.Lemmas.C02w
/-
Parameters of a tunnel session as the clean-path theorems quantify over them.
-/
namespace Iodine.C02L
open Iodine

/-- the hypotheses on codec, host name limit and tunnel domain (those of C08, plus: the domain is a plain byte string
without `*` and NUL, and the alphabet consists of bytes) -/
structure UpSetting (cd : Codec.Codec) (L : Nat) (td : List Nat) : Prop where
  wf : Codec.WF cd
  nodot : ∀ ch ∈ cd.tbl, ch ≠ 46
  byte : ∀ ch ∈ cd.tbl, ch < 256
  hL : 100 ≤ L ∧ L ≤ 255
  td_len : 3 ≤ td.length ∧ td.length ≤ 128 ∧ td.length + 24 ≤ L
  td_legal : Encoding.legalAux 0 td = true
  td_plain : 42 ∉ td
  td_bytes : ∀ c ∈ td, c ≠ 0 ∧ c < 256

theorem tables_byte : (∀ ch ∈ Codec.b32.tbl, ch < 256) ∧ (∀ ch ∈ Codec.b64.tbl, ch < 256) ∧
    (∀ ch ∈ Codec.b64u.tbl, ch < 256) ∧ (∀ ch ∈ Codec.b128.tbl, ch < 256) := by decide +kernel

/-- the four codecs of iodine satisfy the codec part -/
theorem upSetting_of_enc (e : Client.Enc) (L : Nat) (td : List Nat) (hL : 100 ≤ L ∧ L ≤ 255)
    (h1 : 3 ≤ td.length ∧ td.length ≤ 128 ∧ td.length + 24 ≤ L) (h2 : Encoding.legalAux 0 td = true) (h3 : 42 ∉ td)
    (h4 : ∀ c ∈ td, c ≠ 0 ∧ c < 256) : UpSetting e.codec L td := by
  cases e
  · exact ⟨C07.wf_b32, C08.tables_nodot.1, tables_byte.1, hL, h1, h2, h3, h4⟩
  · exact ⟨C07.wf_b64, C08.tables_nodot.2.1, tables_byte.2.1, hL, h1, h2, h3, h4⟩
  · exact ⟨C07.wf_b64u, C08.tables_nodot.2.2.1, tables_byte.2.2.1, hL, h1, h2, h3, h4⟩
  · exact ⟨C07.wf_b128, C08.tables_nodot.2.2.2, tables_byte.2.2.2, hL, h1, h2, h3, h4⟩

/-- the data-CMC character `send_chunk` uses when its counter is `n` -/
def cmcChar (n : Nat) : Nat := (Client.ascii "abcdefghijklmnopqrstuvwxyz0123456789").getD n 0

end Iodine.C02L
