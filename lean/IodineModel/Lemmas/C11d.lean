import IodineModel.Lemmas.C11c
/-
C11, part d — the downstream codec check (`DOWNCODECCHECK1`, 48 bytes) against the alphabets, for the 18 maps of
the family, by kernel evaluation (on the `fast` codecs of part c).
-/
namespace Iodine.C11L
open Iodine Iodine.Gen Iodine.Codec Iodine.Encoding

/-- Base64: in a TXT answer (first conjunct) and in a host-name answer (CNAME / MX / SRV / A, second conjunct;
rotating letters fixed to "aa", they are not looked at: `namedec_tail_indep`) the check is decoded to the 48
bytes only if the map is the identity on the whole alphabet. -/
theorem down_64 :
    (∀ f ∈ familyFns,
      namedec NAMEDEC_CAP ((txtText 83 DOWNCODECCHECK1).map f) = DOWNCODECCHECK1 → IdOn f cb64) ∧
    (∀ f ∈ familyFns,
      namedec NAMEDEC_CAP ((nameenc 83 DOWNCODECCHECK1 97 97).1.map f) = DOWNCODECCHECK1 → IdOn f cb64) := by
  rw [namedec_fast]; decide +kernel

theorem down_64u :
    (∀ f ∈ familyFns,
      namedec NAMEDEC_CAP ((txtText 85 DOWNCODECCHECK1).map f) = DOWNCODECCHECK1 → IdOn f cb64u) ∧
    (∀ f ∈ familyFns,
      namedec NAMEDEC_CAP ((nameenc 85 DOWNCODECCHECK1 97 97).1.map f) = DOWNCODECCHECK1 → IdOn f cb64u) := by
  rw [namedec_fast]; decide +kernel

end Iodine.C11L
