import IodineModel.Lemmas.C02qD1
import IodineModel.Lemmas.C02qD2
/-
C02 phase 2, downstream / immediate mode, desynchronised start — world level.

`down_offerD`: `offerS` from a desynchronised quiescent state.  `DownStuck`: the server has fragment 0 of a packet in
flight whose sequence number the client takes for that of a recent OLD packet.  One round (`tickC deliverUp deliverDown`):
the fragment is sent again (`stuck_resendD`) or the packet is dropped (`stuck_drop`).
-/
namespace Iodine.C02L
open Iodine Iodine.Gen Iodine.World

theorem seq_step (a : Int) (d : Nat) : ((a + (d : Int)) % 8 + 1) % 8 = (a + ((d + 1 : Nat) : Int)) % 8 := by omega

/-- `DownIdle` without the clause "the new sequence number is the client's next one" -/
structure DownIdleG (P : Par) (out : List Nat) (w : W) (sq : Int) : Prop where
  ph : w.cs.ph = .tunnel
  cst : CStat P w.cs.c
  idleC : Client.isSending w.cs.c = false
  up : w.up = []
  down : w.down = []
  srv : DownSrv P w.srv out sq 0 0 0
  res0 : (Server.getUser w.srv P.u).outfragresent = 0
  syncu : (Server.getUser w.srv P.u).inpacket.seqno = w.cs.c.outpkt.seqno
  aged : Aged P (Server.getUser w.srv P.u) w.cs.c.datacmc 1
  paged : PAged P (Server.getUser w.srv P.u) w.cs.c.randSeed 1

theorem DownIdleG.toIdle {P : Par} {out : List Nat} {w : W} {sq : Int} (h : DownIdleG P out w sq)
    (he : sq = (w.cs.c.inpkt.seqno + 1) % 8) : DownIdle P out w sq :=
  ⟨h.ph, h.cst, h.idleC, h.up, h.down, h.srv, h.res0, he, h.syncu, h.aged, h.paged⟩

/-- `offerS` from a quiescent state in which the server's downstream sequence number is `d` ahead: the frame becomes the
outpacket with the number `d + 1` ahead of the client's -/
theorem down_offerD {P : Par} (hP : P.Ok) {w : W} {d : Nat} (hq : QuietImmD P 0 d w) (frame : List Nat) (h24 : 24 ≤ frame.length)
    (hl : frame.length < 65536) (hdst : Server.ipDst frame = (Server.getUser w.srv P.u).tunIp)
    (hF : 0 < (Server.getUser w.srv P.u).fragsize) :
    ∃ w1, step w (.offerS frame) = w1 ∧ DownIdleG P (0x5a :: frame) w1 ((w.cs.c.inpkt.seqno + (d + 1 : Nat)) % 8) ∧
      w1.tunS = w.tunS ∧ w1.tunC = w.tunC ∧ (Server.getUser w1.srv P.u).tunIp = (Server.getUser w.srv P.u).tunIp ∧
      (Server.getUser w1.srv P.u).fragsize = (Server.getUser w.srv P.u).fragsize ∧ w1.srv.now = w.srv.now ∧
      (Server.getUser w1.srv P.u).lastPkt = (Server.getUser w.srv P.u).lastPkt ∧ w1.cs = w.cs := by
  have hS := hq.srv
  have hu := hS.solo.lt
  have hsel : tunSelS w = true := tunSelS_idle hS hq.oq
  have htop := topSess_live hS
  have hsyncu : (Server.getUser w.srv P.u).inpacket.seqno = w.cs.c.outpkt.seqno := by
    have h1 := hS.x.iseq
    have h2 := hq.syncu
    omega
  generalize hx0 : ({ Server.getUser w.srv P.u with qsNew := false } : Server.Session) = x0 at htop
  have ht : frame.take 65536 = frame := List.take_of_length_le (by omega)
  have hs1 : Solo P.u { putUser w.srv P.u x0 with now := w.srv.now } := (hS.solo.putUser x0).withNow _
  have hg1 : Server.getUser { putUser w.srv P.u x0 with now := w.srv.now } P.u = x0 := by
    rw [getUser_withNow, getUser_putUser_self _ _ _ hu]
  have htt : Server.tunnelTun { putUser w.srv P.u x0 with now := w.srv.now } (frame.take 65536) =
      ({ putUser w.srv P.u (startOut x0 (Server.compress frame) (Server.compress frame).length) with now := w.srv.now }, []) := by
    rw [ht, tunnelTun_start hs1 frame h24 (by
        rw [hg1]; subst hx0
        exact ⟨hS.x.active, hS.x.auth, hS.x.enabled, by show (Server.getUser w.srv P.u).lastPkt + 60 > w.srv.now; have := hS.live; omega, hdst⟩)
      (by rw [hg1]; subst hx0; exact hS.x.conn) (by rw [hg1]; subst hx0; exact hq.idle.out)
      (by rw [hg1]; subst hx0; exact hq.idle.q) (by rw [hg1]; subst hx0; exact hq.idle.qs), hg1]
    rw [putUser_withNow, putUser_putUser]
  generalize hy : startOut x0 (Server.compress frame) (Server.compress frame).length = y at htt
  have hit := iteration_tun hS.solo frame w.srv.now y [] (by exact hsel) (by rw [htop]; exact htt)
  have hyqs : y.qs.id = 0 := by subst hy; subst hx0; exact hq.idle.qs
  have hsw : sweepSess y P.u w.srv.now = (y, []) := by
    unfold sweepSess
    rw [if_neg (by intro hc; exact hc.2.1 hyqs)]
  rw [hsw] at hit
  dsimp only at hit
  have hclen : (Server.compress frame).length = frame.length + 1 := by simp [Server.compress]
  have hyop : y.outpacket = ⟨(0x5a :: frame).length, 0, 0, 0x5a :: frame, ((w.cs.c.inpkt.seqno + (d + 1 : Nat)) % 8), 0⟩ := by
    subst hy
    unfold startOut
    simp only [hclen, PACKET_DATA_SIZE]
    have h1 : min (frame.length + 1) 65536 = frame.length + 1 := Nat.min_eq_left (Nat.succ_le_of_lt hl)
    rw [h1]
    have h2 : (Server.compress frame).take (frame.length + 1) = 0x5a :: frame := by
      unfold Server.compress
      exact List.take_of_length_le (by simp)
    rw [h2]
    subst hx0
    simp only [List.length_cons]
    congr 1
    show ((Server.getUser w.srv P.u).outpacket.seqno + 1) % 8 = _
    rw [hq.syncd]
    exact seq_step _ _
  have hg : Server.getUser { putUser w.srv P.u y with now := w.srv.now } P.u = y := by
    rw [getUser_withNow, getUser_putUser_self _ _ _ hu]
  refine ⟨_, rfl, ?_, ?_, ?_, ?_, ?_, ?_, ?_, ?_⟩
  · rw [step_offerS w frame hsel, stepS_zero w _ _ _ _ hit]
    refine ⟨hq.ph, hq.cst, hq.idleC, by simp [hq.up], by simp [hq.down, downOfEvents], ?_, ?_, ?_, ?_, ?_⟩
    · refine ⟨⟨(hS.solo.putUser y).withNow _, hS.td, ?_, ?_, ?_⟩, ?_, ?_, ?_, ?_, ?_, ?_, ?_⟩
      · show XStat P (Server.getUser { putUser w.srv P.u y with now := w.srv.now } P.u)
        rw [hg]
        refine ⟨?_, ?_, ?_, ?_, ?_, ?_, ?_, ?_, ?_⟩
        · subst hy; subst hx0; exact hS.x.active
        · subst hy; subst hx0; exact hS.x.auth
        · subst hy; subst hx0; exact hS.x.enabled
        · subst hy; subst hx0; exact hS.x.conn
        · subst hy; subst hx0; exact hS.x.enc
        · rw [hyop]
          show 0 ≤ (w.cs.c.inpkt.seqno + (d + 1 : Nat)) % 8 ∧ (w.cs.c.inpkt.seqno + (d + 1 : Nat)) % 8 < 8
          omega
        · rw [hyop]; show (0 : Int) ≤ 0 ∧ (0 : Int) < 16; omega
        · subst hy; subst hx0; exact hS.x.iseq
        · subst hy; subst hx0; exact hS.x.ifrag
      · show _ ∨ ((Server.getUser { putUser w.srv P.u y with now := w.srv.now } P.u).host.fam = 4 ∧ _)
        rw [hg]; subst hy; subst hx0; exact hS.host
      · show w.srv.now < (Server.getUser { putUser w.srv P.u y with now := w.srv.now } P.u).lastPkt + 60
        rw [hg]; subst hy; subst hx0; exact hS.live
      · show (Server.getUser { putUser w.srv P.u y with now := w.srv.now } P.u).q.id = 0
        rw [hg]; subst hy; subst hx0; exact hq.idle.q
      · show (Server.getUser { putUser w.srv P.u y with now := w.srv.now } P.u).qs.id = 0
        rw [hg]; exact hyqs
      · show (Server.getUser { putUser w.srv P.u y with now := w.srv.now } P.u).lazy = false
        rw [hg]; subst hy; subst hx0; exact hq.idle.lazy
      · show (Server.getUser { putUser w.srv P.u y with now := w.srv.now } P.u).oqFilled = 0
        rw [hg]; subst hy; subst hx0; exact hq.oq
      · show (Server.getUser { putUser w.srv P.u y with now := w.srv.now } P.u).outpacket = _
        rw [hg, hyop]
        rfl
      · show (Server.getUser { putUser w.srv P.u y with now := w.srv.now } P.u).outfragresent ≤ 1
        rw [hg]; subst hy; show 0 ≤ 1; omega
      · show 0 < (Server.getUser { putUser w.srv P.u y with now := w.srv.now } P.u).fragsize
        rw [hg]; subst hy; subst hx0; exact hF
    · show (Server.getUser { putUser w.srv P.u y with now := w.srv.now } P.u).outfragresent = 0
      rw [hg]; subst hy; rfl
    · show (Server.getUser { putUser w.srv P.u y with now := w.srv.now } P.u).inpacket.seqno = _
      rw [hg]; subst hy; subst hx0; exact hsyncu
    · show Aged P (Server.getUser { putUser w.srv P.u y with now := w.srv.now } P.u) _ 1
      rw [hg]; subst hy; subst hx0; exact hq.aged.congr rfl rfl rfl rfl
    · show PAged P (Server.getUser { putUser w.srv P.u y with now := w.srv.now } P.u) _ 1
      rw [hg]; subst hy; subst hx0; exact hq.paged.congr rfl rfl rfl rfl
  · rw [step_offerS w frame hsel, stepS_zero w _ _ _ _ hit]; simp [tunOfSEvents]
  · rw [step_offerS w frame hsel, stepS_zero w _ _ _ _ hit]
  · rw [step_offerS w frame hsel, stepS_zero w _ _ _ _ hit]
    show (Server.getUser { putUser w.srv P.u y with now := w.srv.now } P.u).tunIp = _
    rw [hg]; subst hy; subst hx0; rfl
  · rw [step_offerS w frame hsel, stepS_zero w _ _ _ _ hit]
    show (Server.getUser { putUser w.srv P.u y with now := w.srv.now } P.u).fragsize = _
    rw [hg]; subst hy; subst hx0; rfl
  · rw [step_offerS w frame hsel, stepS_zero w _ _ _ _ hit]
  · rw [step_offerS w frame hsel, stepS_zero w _ _ _ _ hit]
    show (Server.getUser { putUser w.srv P.u y with now := w.srv.now } P.u).lastPkt = _
    rw [hg]; subst hy; subst hx0; rfl
  · rw [step_offerS w frame hsel, stepS_zero w _ _ _ _ hit]

/-! ### the stuck packet -/

theorem ackSess_mismatch (x : Server.Session) (a b : Int) (h : x.outpacket.seqno ≠ a ∨ x.outpacket.fragment ≠ b) :
    ackSess x a b = x := by
  unfold ackSess
  by_cases h0 : x.outpacket.len = 0
  · rw [if_pos h0]
  · rw [if_neg h0, if_pos h]

/-- the server has fragment 0 of the packet `out` (sequence number `sq`) in flight: `m` bytes sent (`m = 0`: not yet), sent
`r` times; the client takes `sq` for the number of a recent old packet; nothing is in flight -/
structure DownStuck (P : Par) (out : List Nat) (w : W) (sq : Int) (m r : Nat) : Prop where
  ph : w.cs.ph = .tunnel
  cst : CStat P w.cs.c
  idleC : Client.isSending w.cs.c = false
  up : w.up = []
  down : w.down = []
  srv : PingSrvG P w.srv
  op : (Server.getUser w.srv P.u).outpacket = ⟨out.length, m, 0, out, sq, 0⟩
  res : (Server.getUser w.srv P.u).outfragresent = r
  frag : 0 < (Server.getUser w.srv P.u).fragsize
  ne : sq ≠ w.cs.c.inpkt.seqno ∨ (0 : Int) ≠ w.cs.c.inpkt.fragment
  syncu : (Server.getUser w.srv P.u).inpacket.seqno = w.cs.c.outpkt.seqno
  aged : Aged P (Server.getUser w.srv P.u) w.cs.c.datacmc 1
  paged : PAged P (Server.getUser w.srv P.u) w.cs.c.randSeed 1

theorem DownIdleG.stuck {P : Par} {out : List Nat} {w : W} {sq : Int} (h : DownIdleG P out w sq)
    (hne : sq ≠ w.cs.c.inpkt.seqno ∨ (0 : Int) ≠ w.cs.c.inpkt.fragment) : DownStuck P out w sq 0 0 :=
  ⟨h.ph, h.cst, h.idleC, h.up, h.down, ⟨h.srv.stat, h.srv.q, h.srv.qs, h.srv.lz, h.srv.oq⟩, h.srv.op, h.res0, h.srv.frag, hne,
    h.syncu, h.aged, h.paged⟩

/-- what the poll and the server's answer (two scheduler steps) leave, whatever the answer is -/
structure Polled (P : Par) (w w2 : W) (c1 : Client.Cli) (s1 s' : Server.Srv) (name pkt : List Nat) : Prop where
  hc1 : c1 = Client.advanceClock w.cs.c (Client.selectOf w.cs.c)
  hs1 : s1 = { w.srv with now := w.srv.now + ((Client.selectOf w.cs.c).to / 1000000).toNat }
  hw2 : w2 = { w with cs := ⟨pingState c1, .tunnel⟩, srv := s', up := [], down := [.ans (pingState c1).chunkid P.ty name pkt] }
  name0 : name.headD 0 = 112
  c1st : CStat P c1
  ps1 : PingSrvG P s1
  ap : AfterPing P s1 s' (upQuery (pingState c1).chunkid P.ty name) w.cs.c.inpkt.seqno w.cs.c.inpkt.fragment pkt
  aged : Aged P (Server.getUser s' P.u) w.cs.c.datacmc 1
  paged : PAged P (Server.getUser s' P.u) ((w.cs.c.randSeed + 1) % 65536) 1

theorem stuck_up {P : Par} (hP : P.Ok) {w : W} (hph : w.cs.ph = .tunnel) (hc : CStat P w.cs.c)
    (hs : Client.isSending w.cs.c = false) (hup : w.up = []) (hdown : w.down = []) (hS : PingSrvG P w.srv)
    (hnq : quiet P.u w = false)
    (hto : (Client.selectOf w.cs.c).to < 10000000)
    (hexp : ¬ w.cs.c.lastdownstreamtime + 60 < w.cs.c.now + ((Client.selectOf w.cs.c).to / 1000000).toNat)
    (hlive : w.srv.now + ((Client.selectOf w.cs.c).to / 1000000).toNat < (Server.getUser w.srv P.u).lastPkt + 60)
    (hA : Aged P (Server.getUser w.srv P.u) w.cs.c.datacmc 1) (hPA : PAged P (Server.getUser w.srv P.u) w.cs.c.randSeed 1) :
    ∃ w2 c1 s1 s' name pkt, promptSteps P.u 2 w = some w2 ∧ Polled P w w2 c1 s1 s' name pkt := by
  generalize hT : ((Client.selectOf w.cs.c).to / 1000000).toNat = T at hexp hlive
  obtain ⟨name, c1, hs0, hc1, hpq⟩ := poll_step hP hph hc hs hup hdown hto (timeoutS_idleG hS) (by rw [hT]; exact hexp) hnq
  rw [hT] at hs0
  have hc1fr : c1 = { w.cs.c with now := c1.now } := by rw [hc1]; rfl
  have hc1now : c1.now = w.cs.c.now + T := by rw [hc1, advanceClock_now, hT]
  have hc1st : CStat P c1 := by
    rw [hc1fr]
    exact ⟨hc.running, hc.conn, hc.imm, hc.uid, hc.uch, hc.td, hc.L, hc.enc, hc.ty, hc.cid, hc.cmc,
      by show ¬ w.cs.c.lastdownstreamtime + 60 < c1.now; rw [hc1now]; exact hexp, hc.oseq, hc.iseq, hc.ifrag, hc.seed⟩
  generalize hs1def : ({ w.srv with now := w.srv.now + T } : Server.Srv) = s1 at hs0
  have hs1u : Server.getUser s1 P.u = Server.getUser w.srv P.u := by subst hs1def; rfl
  have hS1 : SStat P s1 := by subst hs1def; exact hS.stat.advance T hlive
  have hps1 : PingSrvG P s1 := ⟨hS1, by rw [hs1u]; exact hS.q, by rw [hs1u]; exact hS.qs, by rw [hs1u]; exact hS.lz,
    by rw [hs1u]; exact hS.oq⟩
  generalize hw1 : ({ w with cs := ⟨pingState c1, .tunnel⟩, srv := s1, up := [.query (pingState c1).chunkid P.ty name] } : W) = w1 at hs0
  have hw1srv : w1.srv = s1 := by subst hw1; rfl
  have hw1up : w1.up = [.query (pingState c1).chunkid P.ty name] := by subst hw1; rfl
  have hw1down : w1.down = [] := by subst hw1; exact hdown
  obtain ⟨s', pkt, hs1, hq1, hap, hA', hPA'⟩ := up_answer' hP hw1up hw1down (by rw [hw1srv]; exact hps1) hpq
    (by rw [hw1srv, hs1u]; exact hA) (by rw [hw1srv, hs1u]; exact hPA)
  rw [hw1srv] at hap
  refine ⟨{ w1 with up := [], srv := s', down := [.ans (pingState c1).chunkid P.ty name pkt] }, c1, s1, s', name, pkt, ?_,
    hc1, ?_, ?_, ?_, hc1st, hps1, hap, hA', hPA'⟩
  · rw [promptSteps_succ hnq, hs0, promptSteps_succ hq1, hs1]; rfl
  · rw [← hs1def, hT]
  · subst hw1; rfl
  · have h0 : name.getD 0 0 = 112 := hpq.c0
    rw [headD_eq_getD, h0]

/-- the answer of `AfterPing` is the packet the session-level lemma names -/
theorem pkt_of_afterPing {P : Par} {s s' : Server.Srv} {Q : Server.Query} {a b : Int} {pkt : List Nat} {yy : Server.Session} {D : Nat}
    (hap : AfterPing P s s' Q a b pkt)
    (hyev : (scSess (saveQ (ackSess { Server.getUser s P.u with qsNew := false } a b) Q s.now) P.u .q).1.2 =
      [Server.writeDns Q (Server.scPkt yy D) (Server.getUser s P.u).downenc (.chunk P.u)]) : pkt = Server.scPkt yy D := by
  have h1 := hap.pkt
  rw [hyev] at h1
  have h2 := List.cons.inj h1
  have h3 := h2.1
  unfold Server.writeDns at h3
  injection h3 with _ _ _ _ _ h9
  exact h9.symm

/-- One round with the resend counter at most 5: the poll, the server's answer — fragment 0 once more —, and the client
throws it away (as a duplicate of a recent packet: number in the window; or, same number, as a duplicate fragment).  If the packet has ONE fragment the server forgets it at once and the state is quiescent (desynchronised by
`dd`); otherwise the fragment stays in flight, sent `r + 1` times, and the client's 500 ms timer runs. -/
theorem stuck_resendD {P : Par} (hP : P.Ok) {out : List Nat} {w : W} {sq : Int} {m r dd : Nat}
    (h : DownStuck P out w sq m r) (hr : r ≤ 5) (hL : 0 < out.length)
    (hwin : (sq ≠ w.cs.c.inpkt.seqno ∧ Client.recentSeqno w.cs.c.inpkt.seqno sq = true) ∨
      (sq = w.cs.c.inpkt.seqno ∧ w.cs.c.inpkt.fragment ≠ 0))
    (hdd : sq = (w.cs.c.inpkt.seqno + dd) % 8)
    (hto : (Client.selectOf w.cs.c).to < 10000000)
    (hexp : ¬ w.cs.c.lastdownstreamtime + 60 < w.cs.c.now + ((Client.selectOf w.cs.c).to / 1000000).toNat)
    (hlive : w.srv.now + ((Client.selectOf w.cs.c).to / 1000000).toNat < (Server.getUser w.srv P.u).lastPkt + 60) :
    ∃ D, D = downLen (Server.getUser w.srv P.u).fragsize out.length ∧
      ∃ w', promptSteps P.u 3 w = some w' ∧ w'.tunC = w.tunC ∧ w'.tunS = w.tunS ∧
        (Server.getUser w'.srv P.u).fragsize = (Server.getUser w.srv P.u).fragsize ∧
        (Server.getUser w'.srv P.u).tunIp = (Server.getUser w.srv P.u).tunIp ∧
        (Server.getUser w'.srv P.u).lastPkt = w'.srv.now ∧ w'.cs.c.lastdownstreamtime = w'.cs.c.now ∧
        w'.cs.c.selecttimeout = w.cs.c.selecttimeout ∧ w'.cs.c.sendPingSoon = 500 ∧ w'.cs.c.inpkt = w.cs.c.inpkt ∧
        (D < out.length → DownStuck P out w' sq D (r + 1)) ∧
        (D = out.length → QuietImmD P 0 dd w') := by
  have hsqr : 0 ≤ sq ∧ sq < 8 := by rw [hdd]; omega
  have hq0 : quiet P.u w = false := quiet_false_of_out (by rw [h.op]; show out.length ≠ 0; omega)
  obtain ⟨w2, c1, s1, s', name, pkt, hsteps, hpl⟩ := stuck_up hP h.ph h.cst h.idleC h.up h.down h.srv hq0 hto hexp hlive h.aged h.paged
  have hc1fr : c1 = { w.cs.c with now := c1.now } := by rw [hpl.hc1]; rfl
  have hs1u : Server.getUser s1 P.u = Server.getUser w.srv P.u := by rw [hpl.hs1]; rfl
  have hap := hpl.ap
  generalize hx0 : ({ Server.getUser s1 P.u with qsNew := false } : Server.Session) = x0
  have hslot : Server.getUser s' P.u = pingZ x0 P.u (upQuery (pingState c1).chunkid P.ty name) w.cs.c.inpkt.seqno w.cs.c.inpkt.fragment s1.now := by
    rw [afterPing_slot hap, hx0]
  have hx0op : x0.outpacket = ⟨out.length, m, 0, out, sq, 0⟩ := by subst hx0; show (Server.getUser s1 P.u).outpacket = _; rw [hs1u]; exact h.op
  have hack : ackSess x0 w.cs.c.inpkt.seqno w.cs.c.inpkt.fragment = x0 :=
    ackSess_mismatch x0 _ _ (by rw [hx0op]; exact h.ne)
  obtain ⟨D, hDdef, hzo, hzr, hDpos, hDle, yy, hyev, hyo, hyi⟩ := pingZ_resendD x0 P.u (upQuery (pingState c1).chunkid P.ty name)
    w.cs.c.inpkt.seqno w.cs.c.inpkt.fragment s1.now out sq m rfl
    (by subst hx0; show (Server.getUser s1 P.u).oqFilled = 0; rw [hs1u]; exact h.srv.oq)
    (by subst hx0; show (Server.getUser s1 P.u).outfragresent ≤ 5; rw [hs1u, h.res]; exact hr)
    hx0op hack hL (by subst hx0; show 0 < (Server.getUser s1 P.u).fragsize; rw [hs1u]; exact h.frag)
  have hfs : x0.fragsize = (Server.getUser w.srv P.u).fragsize := by subst hx0; show (Server.getUser s1 P.u).fragsize = _; rw [hs1u]
  have hx0res : x0.outfragresent = r := by subst hx0; show (Server.getUser s1 P.u).outfragresent = _; rw [hs1u]; exact h.res
  rw [hfs] at hDdef
  rw [hx0res] at hzr
  rw [← hslot] at hzo hzr
  have hpkt : pkt = Server.scPkt yy D := pkt_of_afterPing hap (by rw [hx0]; rw [hyev]; subst hx0; rfl)
  have hos : 0 ≤ (Server.getUser s' P.u).outpacket.seqno ∧ (Server.getUser s' P.u).outpacket.seqno < 8 := by
    rw [hzo]; split <;> exact hsqr
  have hof : 0 ≤ (Server.getUser s' P.u).outpacket.fragment ∧ (Server.getUser s' P.u).outpacket.fragment < 16 := by
    rw [hzo]; split <;> (show (0 : Int) ≤ 0 ∧ (0 : Int) < 16; omega)
  obtain ⟨hps, hfs', hin', htun', _, hlp, _⟩ := afterPing_stat' hpl.ps1 rfl hap hos hof
  rw [hs1u] at hfs' hin' htun'
  have hfp := fragPkt_of yy out sq 0 D 0 hyo (by omega) hsqr (by omega)
    (by rw [hyi]; subst hx0; show 0 ≤ (Server.getUser s1 P.u).inpacket.seqno ∧ _; rw [hs1u]; exact h.srv.stat.x.iseq)
    (by rw [hyi]; subst hx0; show 0 ≤ (Server.getUser s1 P.u).inpacket.fragment ∧ _; rw [hs1u]; exact h.srv.stat.x.ifrag)
  rw [← hpkt] at hfp
  have hw2cs : w2.cs = ⟨pingState c1, .tunnel⟩ := by rw [hpl.hw2]
  have hw2up : w2.up = [] := by rw [hpl.hw2]
  have hw2down : w2.down = [.ans (pingState c1).chunkid P.ty name pkt] := by rw [hpl.hw2]
  have hq2 : quiet P.u w2 = false := quiet_false_of_down _ _ _ _ hw2down
  have hpf := pingFacts c1
  have hcst := cstat_pingState hpl.c1st
  generalize hrq : (Client.Rq.mk (pkt.length : Int) (pingState c1).chunkid (answerType P.ty) 0 (name.headD 0) pkt) = rq
  have hci : cliInput (.ans (pingState c1).chunkid P.ty name pkt) = .rq rq := by subst hrq; rfl
  have hidle : Client.isSending (pingState c1) = false := by
    unfold Client.isSending; rw [hpf.outpkt, hc1fr]; exact h.idleC
  have hrok : RecvOk P (pingState c1) rq pkt := by
    subst hrq
    exact ⟨hcst, hidle, hpf.sps, hpl.name0, rfl, rfl, rfl⟩
  have hinp : (pingState c1).inpkt = w.cs.c.inpkt := by rw [hpf.inpkt, hc1fr]
  have hstep : Client.cstep ⟨pingState c1, .tunnel⟩ (.rq rq) =
      (⟨dupeState (pingState c1), .tunnel⟩, [], .sel (Client.selectOf (dupeState (pingState c1)))) := by
    rcases hwin with ⟨hne, hrec⟩ | ⟨heq, hfr⟩
    · exact recv_dupe hrok hfp hDpos (by rw [hinp]; exact hne) (by rw [hinp]; exact hrec)
    · exact recv_dupfrag hrok hfp hDpos (by rw [hinp]; exact heq) (by rw [hinp]; exact hfr)
  generalize hc2 : dupeState (pingState c1) = c2 at hstep
  have hc2st : CStat P c2 := by rw [← hc2]; exact cstat_dupeState hcst
  have hs2 : step w2 (promptEv w2) = { w2 with down := [], cs := ⟨c2, .tunnel⟩ } := by
    rw [promptEv_down w2 _ _ hw2up hw2down, step_deliverDown w2 _ _ hw2down, hci,
      stepC_of { w2 with down := [] } (.rq rq) ⟨c2, .tunnel⟩ [] (.sel (Client.selectOf c2))
        (by show Client.cstep w2.cs _ = _; rw [hw2cs]; exact hstep)
        (by show c2.now = w2.cs.c.now; rw [hw2cs, ← hc2]; rfl)]
    simp [upOfEvents, tunOfCEvents, hw2up]
  have hc2inp : c2.inpkt = w.cs.c.inpkt := by rw [← hc2]; exact hinp
  have hsu : (Server.getUser s' P.u).inpacket.seqno = c2.outpkt.seqno := by
    rw [hin', h.syncu, ← hc2]
    show w.cs.c.outpkt.seqno = (pingState c1).outpkt.seqno
    rw [hpf.outpkt, hc1fr]
  have hA2 : Aged P (Server.getUser s' P.u) c2.datacmc 1 := by
    have : c2.datacmc = w.cs.c.datacmc := by rw [← hc2]; show (pingState c1).datacmc = _; rw [hpf.datacmc, hc1fr]
    rw [this]; exact hpl.aged
  have hP2 : PAged P (Server.getUser s' P.u) c2.randSeed 1 := by
    have : c2.randSeed = (w.cs.c.randSeed + 1) % 65536 := by rw [← hc2]; show (pingState c1).randSeed = _; rw [hpf.seed, hc1fr]
    rw [this]; exact hpl.paged
  have hidle2 : Client.isSending c2 = false := by rw [← hc2]; exact hidle
  refine ⟨D, hDdef, { w2 with down := [], cs := ⟨c2, .tunnel⟩ }, ?_, ?_, ?_, ?_, ?_, ?_, ?_, ?_, ?_, ?_, ?_, ?_⟩
  · have := promptSteps_add P.u 2 1 w w2 hsteps
    rw [this, promptSteps_succ hq2, hs2]; rfl
  · rw [hpl.hw2]
  · rw [hpl.hw2]
  · rw [hpl.hw2]; exact hfs'
  · rw [hpl.hw2]; exact htun'
  · rw [hpl.hw2]; exact hlp
  · show c2.lastdownstreamtime = c2.now
    rw [← hc2]; rfl
  · show c2.selecttimeout = _
    rw [← hc2]; show (pingState c1).selecttimeout = _; rw [hpf.selto, hc1fr]
  · show c2.sendPingSoon = 500
    rw [← hc2]; rfl
  · exact hc2inp
  · intro hlt
    rw [if_neg (by omega)] at hzo hzr
    rw [hpl.hw2]
    exact ⟨rfl, hc2st, hidle2, rfl, rfl, hps, hzo, hzr, by rw [hfs']; exact h.frag,
      by rw [hc2inp]; exact h.ne, hsu, hA2, hP2⟩
  · intro heq
    rw [if_pos heq] at hzo hzr
    rw [hpl.hw2]
    refine ⟨rfl, hc2st, hidle2, rfl, rfl, hps.stat, ⟨by rw [hzo], hps.q, hps.qs, hps.lz⟩, hps.oq, ?_, ?_, hA2, hP2⟩
    · show c2.outpkt.seqno = ((Server.getUser s' P.u).inpacket.seqno + (0 : Nat)) % 8
      rw [hsu]
      have := hc2st.oseq
      omega
    · show (Server.getUser s' P.u).outpacket.seqno = (c2.inpkt.seqno + dd) % 8
      rw [hzo, hc2inp]; exact hdd

/-- The round in which the resend counter is above 5: the poll, the server DROPS the packet and answers dataless, the client
does not adopt the number (it is in the window): quiescent, desynchronised by `dd`. -/
theorem stuck_drop {P : Par} (hP : P.Ok) {out : List Nat} {w : W} {sq : Int} {m r dd : Nat}
    (h : DownStuck P out w sq m r) (hr : 5 < r) (hL : 0 < out.length)
    (hrec : sq = w.cs.c.inpkt.seqno ∨ Client.recentSeqno w.cs.c.inpkt.seqno sq = true)
    (hdd : sq = (w.cs.c.inpkt.seqno + dd) % 8)
    (hto : (Client.selectOf w.cs.c).to < 10000000)
    (hexp : ¬ w.cs.c.lastdownstreamtime + 60 < w.cs.c.now + ((Client.selectOf w.cs.c).to / 1000000).toNat)
    (hlive : w.srv.now + ((Client.selectOf w.cs.c).to / 1000000).toNat < (Server.getUser w.srv P.u).lastPkt + 60) :
    ∃ w', promptSteps P.u 3 w = some w' ∧ w'.tunC = w.tunC ∧ w'.tunS = w.tunS ∧
      (Server.getUser w'.srv P.u).fragsize = (Server.getUser w.srv P.u).fragsize ∧
      (Server.getUser w'.srv P.u).tunIp = (Server.getUser w.srv P.u).tunIp ∧
      (Server.getUser w'.srv P.u).lastPkt = w'.srv.now ∧ w'.cs.c.lastdownstreamtime = w'.cs.c.now ∧
      w'.cs.c.selecttimeout = w.cs.c.selecttimeout ∧ w'.cs.c.sendPingSoon = 0 ∧ w'.cs.c.inpkt = w.cs.c.inpkt ∧
      QuietImmD P 0 dd w' := by
  have hsqr : 0 ≤ sq ∧ sq < 8 := by rw [hdd]; omega
  have hq0 : quiet P.u w = false := quiet_false_of_out (by rw [h.op]; show out.length ≠ 0; omega)
  obtain ⟨w2, c1, s1, s', name, pkt, hsteps, hpl⟩ := stuck_up hP h.ph h.cst h.idleC h.up h.down h.srv hq0 hto hexp hlive h.aged h.paged
  have hc1fr : c1 = { w.cs.c with now := c1.now } := by rw [hpl.hc1]; rfl
  have hs1u : Server.getUser s1 P.u = Server.getUser w.srv P.u := by rw [hpl.hs1]; rfl
  have hap := hpl.ap
  generalize hx0 : ({ Server.getUser s1 P.u with qsNew := false } : Server.Session) = x0
  have hslot : Server.getUser s' P.u = pingZ x0 P.u (upQuery (pingState c1).chunkid P.ty name) w.cs.c.inpkt.seqno w.cs.c.inpkt.fragment s1.now := by
    rw [afterPing_slot hap, hx0]
  have hx0op : x0.outpacket = ⟨out.length, m, 0, out, sq, 0⟩ := by subst hx0; show (Server.getUser s1 P.u).outpacket = _; rw [hs1u]; exact h.op
  have hack : ackSess x0 w.cs.c.inpkt.seqno w.cs.c.inpkt.fragment = x0 :=
    ackSess_mismatch x0 _ _ (by rw [hx0op]; exact h.ne)
  have hx0res : x0.outfragresent = r := by subst hx0; show (Server.getUser s1 P.u).outfragresent = _; rw [hs1u]; exact h.res
  obtain ⟨yy, hzo, hyl, hys, hyf, _, hyev, hyi⟩ := pingZ_dataless x0 P.u (upQuery (pingState c1).chunkid P.ty name)
    w.cs.c.inpkt.seqno w.cs.c.inpkt.fragment s1.now rfl
    (by subst hx0; show (Server.getUser s1 P.u).oqFilled = 0; rw [hs1u]; exact h.srv.oq) hack (Or.inr (by rw [hx0res]; exact hr))
  rw [← hslot] at hzo
  rw [hx0op] at hys hyf
  have hpkt : pkt = Server.scPkt yy 0 := pkt_of_afterPing hap (by rw [hx0]; rw [hyev]; subst hx0; rfl)
  have hos : 0 ≤ (Server.getUser s' P.u).outpacket.seqno ∧ (Server.getUser s' P.u).outpacket.seqno < 8 := by
    rw [hzo, hys]; exact hsqr
  have hof : 0 ≤ (Server.getUser s' P.u).outpacket.fragment ∧ (Server.getUser s' P.u).outpacket.fragment < 16 := by
    rw [hzo, hyf]; show (0 : Int) ≤ 0 ∧ (0 : Int) < 16; omega
  obtain ⟨hps, hfs', hin', htun', _, hlp, _⟩ := afterPing_stat' hpl.ps1 rfl hap hos hof
  rw [hs1u] at hfs' hin' htun'
  obtain ⟨hlen2, hdn, _, _⟩ := ack_hdr (x := yy) (y := yy) hpkt
    (by rw [hyi]; subst hx0; show 0 ≤ (Server.getUser s1 P.u).inpacket.seqno ∧ _; rw [hs1u]; exact h.srv.stat.x.iseq)
    (by rw [hyi]; subst hx0; show 0 ≤ (Server.getUser s1 P.u).inpacket.fragment ∧ _; rw [hs1u]; exact h.srv.stat.x.ifrag)
    rfl (by rw [hys]; exact hsqr) (by rw [hyf]; show (0 : Int) ≤ 0 ∧ (0 : Int) < 16; omega)
  rw [hys] at hdn
  have hw2cs : w2.cs = ⟨pingState c1, .tunnel⟩ := by rw [hpl.hw2]
  have hw2up : w2.up = [] := by rw [hpl.hw2]
  have hw2down : w2.down = [.ans (pingState c1).chunkid P.ty name pkt] := by rw [hpl.hw2]
  have hq2 : quiet P.u w2 = false := quiet_false_of_down _ _ _ _ hw2down
  have hpf := pingFacts c1
  have hcst := cstat_pingState hpl.c1st
  generalize hrq : (Client.Rq.mk (pkt.length : Int) (pingState c1).chunkid (answerType P.ty) 0 (name.headD 0) pkt) = rq
  have hci : cliInput (.ans (pingState c1).chunkid P.ty name pkt) = .rq rq := by subst hrq; rfl
  have hidle : Client.isSending (pingState c1) = false := by
    unfold Client.isSending; rw [hpf.outpkt, hc1fr]; exact h.idleC
  have hrok : RecvOk0 P (pingState c1) rq pkt := by
    subst hrq
    exact ⟨hcst, hidle, hpf.sps, hpl.name0, hlen2, rfl, rfl⟩
  have hinp : (pingState c1).inpkt = w.cs.c.inpkt := by rw [hpf.inpkt, hc1fr]
  have hstep := recv_dataless_stale hrok (by rw [hdn, hinp]; exact hrec)
  generalize hc2 : ackBook (pingState c1) = c2 at hstep
  have hc2st : CStat P c2 := by rw [← hc2]; exact cstat_ackBook hcst
  have hs2 : step w2 (promptEv w2) = { w2 with down := [], cs := ⟨c2, .tunnel⟩ } := by
    rw [promptEv_down w2 _ _ hw2up hw2down, step_deliverDown w2 _ _ hw2down, hci,
      stepC_of { w2 with down := [] } (.rq rq) ⟨c2, .tunnel⟩ [] (.sel (Client.selectOf c2))
        (by show Client.cstep w2.cs _ = _; rw [hw2cs]; exact hstep)
        (by show c2.now = w2.cs.c.now; rw [hw2cs, ← hc2]; rfl)]
    simp [upOfEvents, tunOfCEvents, hw2up]
  have hc2inp : c2.inpkt = w.cs.c.inpkt := by rw [← hc2]; exact hinp
  have hsu : (Server.getUser s' P.u).inpacket.seqno = c2.outpkt.seqno := by
    rw [hin', h.syncu, ← hc2]
    show w.cs.c.outpkt.seqno = (pingState c1).outpkt.seqno
    rw [hpf.outpkt, hc1fr]
  have hA2 : Aged P (Server.getUser s' P.u) c2.datacmc 1 := by
    have : c2.datacmc = w.cs.c.datacmc := by rw [← hc2]; show (pingState c1).datacmc = _; rw [hpf.datacmc, hc1fr]
    rw [this]; exact hpl.aged
  have hP2 : PAged P (Server.getUser s' P.u) c2.randSeed 1 := by
    have : c2.randSeed = (w.cs.c.randSeed + 1) % 65536 := by rw [← hc2]; show (pingState c1).randSeed = _; rw [hpf.seed, hc1fr]
    rw [this]; exact hpl.paged
  have hidle2 : Client.isSending c2 = false := by rw [← hc2]; exact hidle
  refine ⟨{ w2 with down := [], cs := ⟨c2, .tunnel⟩ }, ?_, ?_, ?_, ?_, ?_, ?_, ?_, ?_, ?_, ?_, ?_⟩
  · have := promptSteps_add P.u 2 1 w w2 hsteps
    rw [this, promptSteps_succ hq2, hs2]; rfl
  · rw [hpl.hw2]
  · rw [hpl.hw2]
  · rw [hpl.hw2]; exact hfs'
  · rw [hpl.hw2]; exact htun'
  · rw [hpl.hw2]; exact hlp
  · show c2.lastdownstreamtime = c2.now
    rw [← hc2]; rfl
  · show c2.selecttimeout = _
    rw [← hc2]; show (pingState c1).selecttimeout = _; rw [hpf.selto, hc1fr]
  · show c2.sendPingSoon = 0
    rw [← hc2]; exact hpf.sps
  · exact hc2inp
  · rw [hpl.hw2]
    refine ⟨rfl, hc2st, hidle2, rfl, rfl, hps.stat, ⟨by rw [hzo]; exact hyl, hps.q, hps.qs, hps.lz⟩, hps.oq, ?_, ?_, hA2, hP2⟩
    · show c2.outpkt.seqno = ((Server.getUser s' P.u).inpacket.seqno + (0 : Nat)) % 8
      rw [hsu]
      have := hc2st.oseq
      omega
    · show (Server.getUser s' P.u).outpacket.seqno = (c2.inpkt.seqno + dd) % 8
      rw [hzo, hys, hc2inp]; exact hdd

end Iodine.C02L
