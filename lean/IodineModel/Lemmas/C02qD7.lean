import IodineModel.Lemmas.C02qD4
/-
C02 phase 2, downstream / immediate mode, desynchronised start — the IDLE POLL.

In immediate mode the client pings whenever its `select` times out.  From a quiescent state the prompt scheduler does
nothing (`quiet`), so the poll is stated with its explicit events `tickC deliverUp deliverDown` (which are the events the
prompt scheduler picks as soon as the state is not quiescent: `promptEv`).  The server answers dataless with its current
downstream sequence number: the client ADOPTS it when it is 1..4 ahead (`idle_poll_resyncs_down`) and ignores it when it
is the current one or 5..7 ahead, i.e. in the window (`idle_poll_stale`).
-/
namespace Iodine.C02L
open Iodine Iodine.Gen Iodine.World

/-- `poll_step` (C02d8) with the event named and without the hypothesis that the state is not quiescent -/
theorem poll_stepE {P : Par} (hP : P.Ok) {w : W} (hph : w.cs.ph = .tunnel) (hc : CStat P w.cs.c)
    (hs : Client.isSending w.cs.c = false) (hup : w.up = []) (hdown : w.down = [])
    (hto : (Client.selectOf w.cs.c).to < 10000000) (hts : timeoutS w = 10000000)
    (hexp : ¬ w.cs.c.lastdownstreamtime + 60 < w.cs.c.now + ((Client.selectOf w.cs.c).to / 1000000).toNat) :
    ∃ name c1, promptEv w = .tickC ∧ step w .tickC =
        { w with cs := ⟨pingState c1, .tunnel⟩,
                 srv := { w.srv with now := w.srv.now + ((Client.selectOf w.cs.c).to / 1000000).toNat },
                 up := [.query (pingState c1).chunkid P.ty name] } ∧
      c1 = Client.advanceClock w.cs.c (Client.selectOf w.cs.c) ∧
      PingQ P (upQuery (pingState c1).chunkid P.ty name) w.cs.c.inpkt.seqno w.cs.c.inpkt.fragment w.cs.c.randSeed := by
  have hcs := cstate_eta w.cs hph
  generalize hc1 : Client.advanceClock w.cs.c (Client.selectOf w.cs.c) = c1
  have hfr : c1 = { w.cs.c with now := c1.now } := by rw [← hc1]; rfl
  have hnow : c1.now = w.cs.c.now + ((Client.selectOf w.cs.c).to / 1000000).toNat := by rw [← hc1]; rfl
  have hc1st : CStat P c1 := by
    rw [hfr]
    exact ⟨hc.running, hc.conn, hc.imm, hc.uid, hc.uch, hc.td, hc.L, hc.enc, hc.ty, hc.cid, hc.cmc,
      by show ¬ w.cs.c.lastdownstreamtime + 60 < c1.now; rw [hnow]; exact hexp, hc.oseq, hc.iseq, hc.ifrag, hc.seed⟩
  obtain ⟨name, hsend, hpq⟩ := sendPing_ready hP hc1st
  have hpe : promptEv w = .tickC := by
    unfold promptEv
    have htc : timeoutC w = some (Client.selectOf w.cs.c).to := by
      unfold timeoutC Client.pending
      rw [hph]
    simp only [hup, hdown, List.isEmpty_nil, Bool.not_true, Bool.false_eq_true, if_false, htc, hts]
    rw [if_neg (by omega)]
  have hstep : Client.cstep w.cs .tick = (⟨pingState c1, .tunnel⟩, [.query (pingState c1).chunkid P.ty name],
      .sel (Client.selectOf (pingState c1))) := by
    rw [hcs]
    show Client.tunnelStep w.cs.c .tick = _
    rw [tunnelStep_tick w.cs.c hc.running (by rw [advanceClock_now]; exact hexp), hc1,
      timeoutBranch_idle c1 (by rw [hfr]; exact hs)]
    have hrun : (Client.rotateChunkid { c1 with randSeed := (c1.randSeed + 1) % 65536 }).running = true := by
      have : (Client.rotateChunkid { c1 with randSeed := (c1.randSeed + 1) % 65536 }).running = c1.running := by
        simp [Client.rotateChunkid]
      rw [this]; exact hc1st.running
    rw [settle_afterSend _ _ _ (by rw [hsend]) (by rw [hsend]; exact hrun), hsend]
    have e : ({ Client.rotateChunkid { c1 with randSeed := (c1.randSeed + 1) % 65536 } with sendPingSoon := 0 } : Client.Cli) =
        pingState c1 := by unfold pingState; rfl
    simp only [List.nil_append]
    rw [e]
    have e2 : (Client.rotateChunkid { c1 with randSeed := (c1.randSeed + 1) % 65536 }).chunkid = (pingState c1).chunkid := by
      rw [← e]
    rw [e2]
  refine ⟨name, c1, hpe, ?_, rfl, ?_⟩
  · rw [step_tickC, stepC_tick w _ _ _ hstep, hup]
    have hn2 : (pingState c1).now - w.cs.c.now = ((Client.selectOf w.cs.c).to / 1000000).toNat := by
      rw [(pingFacts c1).now, hnow]; omega
    simp only [hn2, List.nil_append, upOfEvents, tunOfCEvents, List.append_nil]
  · have e1 : c1.inpkt = w.cs.c.inpkt := by rw [hfr]
    have e2 : c1.randSeed = w.cs.c.randSeed := by rw [hfr]
    have e3 : (pingState c1).chunkid = (Client.rotateChunkid { c1 with randSeed := (c1.randSeed + 1) % 65536 }).chunkid := by
      simp [pingState]
    rw [← e1, ← e2, e3]
    exact hpq

/-- the poll and the server's answer from a state that may be quiescent: `tickC`, `deliverUp` -/
theorem idle_up {P : Par} (hP : P.Ok) {w : W} (hph : w.cs.ph = .tunnel) (hc : CStat P w.cs.c)
    (hs : Client.isSending w.cs.c = false) (hup : w.up = []) (hdown : w.down = []) (hS : PingSrvG P w.srv)
    (hto : (Client.selectOf w.cs.c).to < 10000000)
    (hexp : ¬ w.cs.c.lastdownstreamtime + 60 < w.cs.c.now + ((Client.selectOf w.cs.c).to / 1000000).toNat)
    (hlive : w.srv.now + ((Client.selectOf w.cs.c).to / 1000000).toNat < (Server.getUser w.srv P.u).lastPkt + 60)
    (hA : Aged P (Server.getUser w.srv P.u) w.cs.c.datacmc 1) (hPA : PAged P (Server.getUser w.srv P.u) w.cs.c.randSeed 1) :
    ∃ w2 c1 s1 s' name pkt, promptEv w = .tickC ∧ promptEv (step w .tickC) = .deliverUp ∧
      step (step w .tickC) .deliverUp = w2 ∧ Polled P w w2 c1 s1 s' name pkt := by
  generalize hT : ((Client.selectOf w.cs.c).to / 1000000).toNat = T at hexp hlive
  obtain ⟨name, c1, hpe, hs0, hc1, hpq⟩ := poll_stepE hP hph hc hs hup hdown hto (timeoutS_idleG hS) (by rw [hT]; exact hexp)
  rw [hT] at hs0
  have hc1fr : c1 = { w.cs.c with now := c1.now } := by rw [hc1]; rfl
  have hc1now : c1.now = w.cs.c.now + T := by rw [hc1, advanceClock_now, hT]
  have hc1st : CStat P c1 := by
    rw [hc1fr]
    exact ⟨hc.running, hc.conn, hc.imm, hc.uid, hc.uch, hc.td, hc.L, hc.enc, hc.ty, hc.cid, hc.cmc,
      by show ¬ w.cs.c.lastdownstreamtime + 60 < c1.now; rw [hc1now]; exact hexp, hc.oseq, hc.iseq, hc.ifrag, hc.seed⟩
  generalize hs1def : ({ w.srv with now := w.srv.now + T } : Server.Srv) = s1 at hs0
  have hs1u : Server.getUser s1 P.u = Server.getUser w.srv P.u := by subst hs1def; rfl
  have hS1 : SStat P s1 := by subst hs1def; exact hS.stat.advance T hlive
  have hps1 : PingSrvG P s1 := ⟨hS1, by rw [hs1u]; exact hS.q, by rw [hs1u]; exact hS.qs, by rw [hs1u]; exact hS.lz,
    by rw [hs1u]; exact hS.oq⟩
  generalize hw1 : ({ w with cs := ⟨pingState c1, .tunnel⟩, srv := s1, up := [.query (pingState c1).chunkid P.ty name] } : W) = w1 at hs0
  have hw1srv : w1.srv = s1 := by subst hw1; rfl
  have hw1up : w1.up = [.query (pingState c1).chunkid P.ty name] := by subst hw1; rfl
  have hw1down : w1.down = [] := by subst hw1; exact hdown
  obtain ⟨s', pkt, hs1, hq1, hap, hA', hPA'⟩ := up_answer' hP hw1up hw1down (by rw [hw1srv]; exact hps1) hpq
    (by rw [hw1srv, hs1u]; exact hA) (by rw [hw1srv, hs1u]; exact hPA)
  rw [hw1srv] at hap
  have hpe1 : promptEv w1 = .deliverUp := promptEv_up w1 _ _ hw1up
  rw [hpe1] at hs1
  refine ⟨{ w1 with up := [], srv := s', down := [.ans (pingState c1).chunkid P.ty name pkt] }, c1, s1, s', name, pkt, hpe, ?_, ?_,
    hc1, ?_, ?_, ?_, hc1st, hps1, hap, hA', hPA'⟩
  · rw [hs0]; exact hpe1
  · rw [hs0]; exact hs1
  · rw [← hs1def, hT]
  · subst hw1; rfl
  · have h0 : name.getD 0 0 = 112 := hpq.c0
    rw [headD_eq_getD, h0]

theorem ackSess_idleD (x : Server.Session) (a b : Int) (h : x.outpacket.len = 0) : ackSess x a b = x := by
  unfold ackSess
  rw [if_pos h]

/-- One idle poll from a quiescent state desynchronised by `d`.  `adopt = true`: the server's number is 1..4 ahead, the
client adopts it, the joint state is SYNCHRONISED and the client's 500 ms timer runs.  `adopt = false`: the number is the
client's own or in the window (5..7 ahead): nothing changes but the clocks and the ping counters. -/
theorem idle_poll {P : Par} (hP : P.Ok) {w : W} {d : Nat} (hq : QuietImmD P 0 d w) (hd : d < 8)
    (hto : (Client.selectOf w.cs.c).to < 10000000)
    (hexp : ¬ w.cs.c.lastdownstreamtime + 60 < w.cs.c.now + ((Client.selectOf w.cs.c).to / 1000000).toNat)
    (hlive : w.srv.now + ((Client.selectOf w.cs.c).to / 1000000).toNat < (Server.getUser w.srv P.u).lastPkt + 60) :
    ∃ w', run w [.tickC, .deliverUp, .deliverDown] = w' ∧
      promptEv w = .tickC ∧ promptEv (step w .tickC) = .deliverUp ∧ promptEv (step (step w .tickC) .deliverUp) = .deliverDown ∧
      w'.tunC = w.tunC ∧ w'.tunS = w.tunS ∧
      (Server.getUser w'.srv P.u).fragsize = (Server.getUser w.srv P.u).fragsize ∧
      (Server.getUser w'.srv P.u).tunIp = (Server.getUser w.srv P.u).tunIp ∧
      (Server.getUser w'.srv P.u).lastPkt = w'.srv.now ∧ w'.cs.c.lastdownstreamtime = w'.cs.c.now ∧
      w'.cs.c.selecttimeout = w.cs.c.selecttimeout ∧
      w'.cs.c.now = w.cs.c.now + ((Client.selectOf w.cs.c).to / 1000000).toNat ∧
      ((1 ≤ d ∧ d ≤ 4) → QuietImm P w' ∧ w'.cs.c.sendPingSoon = 500 ∧
        w'.cs.c.inpkt.seqno = (w.cs.c.inpkt.seqno + d) % 8 ∧ w'.cs.c.inpkt.len = 0) ∧
      ((d = 0 ∨ 5 ≤ d) → QuietImmD P 0 d w' ∧ w'.cs.c.sendPingSoon = 0 ∧ w'.cs.c.inpkt = w.cs.c.inpkt) := by
  have hsrvG : PingSrvG P w.srv := ⟨hq.srv, hq.idle.q, hq.idle.qs, hq.idle.lazy, hq.oq⟩
  obtain ⟨w2, c1, s1, s', name, pkt, hpe0, hpe1, hsteps, hpl⟩ := idle_up hP hq.ph hq.cst hq.idleC hq.up hq.down hsrvG hto hexp hlive hq.aged hq.paged
  have hc1fr : c1 = { w.cs.c with now := c1.now } := by rw [hpl.hc1]; rfl
  have hs1u : Server.getUser s1 P.u = Server.getUser w.srv P.u := by rw [hpl.hs1]; rfl
  have hap := hpl.ap
  have hci := hq.cst.iseq
  generalize hsq : (w.cs.c.inpkt.seqno + d) % 8 = sq
  have hsqr : 0 ≤ sq ∧ sq < 8 := by rw [← hsq]; omega
  generalize hx0 : ({ Server.getUser s1 P.u with qsNew := false } : Server.Session) = x0
  have hslot : Server.getUser s' P.u = pingZ x0 P.u (upQuery (pingState c1).chunkid P.ty name) w.cs.c.inpkt.seqno w.cs.c.inpkt.fragment s1.now := by
    rw [afterPing_slot hap, hx0]
  have hx0len : x0.outpacket.len = 0 := by subst hx0; show (Server.getUser s1 P.u).outpacket.len = 0; rw [hs1u]; exact hq.idle.out
  have hx0seq : x0.outpacket.seqno = sq := by subst hx0; show (Server.getUser s1 P.u).outpacket.seqno = _; rw [hs1u, hq.syncd, hsq]
  have hx0fr : 0 ≤ x0.outpacket.fragment ∧ x0.outpacket.fragment < 16 := by
    subst hx0; show 0 ≤ (Server.getUser s1 P.u).outpacket.fragment ∧ _; rw [hs1u]; exact hq.srv.x.ofrag
  have hack : ackSess x0 w.cs.c.inpkt.seqno w.cs.c.inpkt.fragment = x0 := ackSess_idleD x0 _ _ hx0len
  obtain ⟨yy, hzo, hyl, hys, hyf, _, hyev, hyi⟩ := pingZ_dataless x0 P.u (upQuery (pingState c1).chunkid P.ty name)
    w.cs.c.inpkt.seqno w.cs.c.inpkt.fragment s1.now rfl
    (by subst hx0; show (Server.getUser s1 P.u).oqFilled = 0; rw [hs1u]; exact hq.oq) hack (Or.inl hx0len)
  rw [← hslot] at hzo
  rw [hx0seq] at hys
  have hpkt : pkt = Server.scPkt yy 0 := pkt_of_afterPing hap (by rw [hx0]; rw [hyev]; subst hx0; rfl)
  have hos : 0 ≤ (Server.getUser s' P.u).outpacket.seqno ∧ (Server.getUser s' P.u).outpacket.seqno < 8 := by
    rw [hzo, hys]; exact hsqr
  have hof : 0 ≤ (Server.getUser s' P.u).outpacket.fragment ∧ (Server.getUser s' P.u).outpacket.fragment < 16 := by
    rw [hzo, hyf]; exact hx0fr
  obtain ⟨hps, hfs', hin', htun', _, hlp, _⟩ := afterPing_stat' hpl.ps1 rfl hap hos hof
  rw [hs1u] at hfs' hin' htun'
  have hdh := decodeHdr_scPkt yy 0
    (by rw [hyi]; subst hx0; show 0 ≤ (Server.getUser s1 P.u).inpacket.seqno ∧ _; rw [hs1u]; exact hq.srv.x.iseq)
    (by rw [hyi]; subst hx0; show 0 ≤ (Server.getUser s1 P.u).inpacket.fragment ∧ _; rw [hs1u]; exact hq.srv.x.ifrag)
    (by rw [hys]; exact hsqr) (by rw [hyf]; exact hx0fr)
  rw [← hpkt] at hdh
  have hdn : (Client.decodeHdr pkt).dnSeq = sq := by rw [hdh]; exact hys
  have hdf : (Client.decodeHdr pkt).dnFrag = x0.outpacket.fragment := by rw [hdh]; exact hyf
  have hlen2 : (pkt.length : Int) = 2 := by rw [hpkt, scPkt_length]; simp
  have hw2cs : w2.cs = ⟨pingState c1, .tunnel⟩ := by rw [hpl.hw2]
  have hw2up : w2.up = [] := by rw [hpl.hw2]
  have hw2down : w2.down = [.ans (pingState c1).chunkid P.ty name pkt] := by rw [hpl.hw2]
  have hpe2 : promptEv w2 = .deliverDown := promptEv_down w2 _ _ hw2up hw2down
  have hpf := pingFacts c1
  have hcst := cstat_pingState hpl.c1st
  generalize hrq : (Client.Rq.mk (pkt.length : Int) (pingState c1).chunkid (answerType P.ty) 0 (name.headD 0) pkt) = rq
  have hci' : cliInput (.ans (pingState c1).chunkid P.ty name pkt) = .rq rq := by subst hrq; rfl
  have hidle : Client.isSending (pingState c1) = false := by
    unfold Client.isSending; rw [hpf.outpkt, hc1fr]; exact hq.idleC
  have hrok : RecvOk0 P (pingState c1) rq pkt := by
    subst hrq
    exact ⟨hcst, hidle, hpf.sps, hpl.name0, hlen2, rfl, rfl⟩
  have hinp : (pingState c1).inpkt = w.cs.c.inpkt := by rw [hpf.inpkt, hc1fr]
  have hrun : run w [.tickC, .deliverUp, .deliverDown] = step w2 .deliverDown := by
    show step (step (step w .tickC) .deliverUp) .deliverDown = _
    rw [hsteps]
  have hsyncu : (Server.getUser w.srv P.u).inpacket.seqno = w.cs.c.outpkt.seqno := by
    have h1 := hq.srv.x.iseq
    have h2 := hq.syncu
    omega
  have hsu0 : (Server.getUser s' P.u).inpacket.seqno = (pingState c1).outpkt.seqno := by
    rw [hin', hsyncu, hpf.outpkt, hc1fr]
  have hA2 : Aged P (Server.getUser s' P.u) (pingState c1).datacmc 1 := by
    have : (pingState c1).datacmc = w.cs.c.datacmc := by rw [hpf.datacmc, hc1fr]
    rw [this]; exact hpl.aged
  have hP2 : PAged P (Server.getUser s' P.u) (pingState c1).randSeed 1 := by
    have : (pingState c1).randSeed = (w.cs.c.randSeed + 1) % 65536 := by rw [hpf.seed, hc1fr]
    rw [this]; exact hpl.paged
  by_cases hcase : 1 ≤ d ∧ d ≤ 4
  · -- adopted
    have hne : sq ≠ (pingState c1).inpkt.seqno := by rw [hinp, ← hsq]; omega
    have hrec : Client.recentSeqno (pingState c1).inpkt.seqno sq = false := by
      rw [hinp, ← hsq]; exact recentSeqno_far _ hci d hcase
    have hstep := recv_dataless_adopt hrok hdn hdf hsqr hx0fr hne hrec
    generalize hc2 : adoptState (pingState c1) sq x0.outpacket.fragment = c2 at hstep
    have hc2st : CStat P c2 := by rw [← hc2]; exact cstat_adoptState hcst sq _ hsqr hx0fr
    have hs2 : step w2 .deliverDown = { w2 with down := [], cs := ⟨c2, .tunnel⟩ } := by
      rw [step_deliverDown w2 _ _ hw2down, hci',
        stepC_of { w2 with down := [] } (.rq rq) ⟨c2, .tunnel⟩ [] (.sel (Client.selectOf c2))
          (by show Client.cstep w2.cs _ = _; rw [hw2cs]; exact hstep)
          (by show c2.now = w2.cs.c.now; rw [hw2cs, ← hc2]; rfl)]
      simp [upOfEvents, tunOfCEvents, hw2up]
    refine ⟨_, hrun.trans hs2, hpe0, hpe1, by rw [hsteps]; exact hpe2, ?_, ?_, ?_, ?_, ?_, ?_, ?_, ?_, ?_, ?_⟩
    · rw [hpl.hw2]
    · rw [hpl.hw2]
    · rw [hpl.hw2]; exact hfs'
    · rw [hpl.hw2]; exact htun'
    · rw [hpl.hw2]; exact hlp
    · show c2.lastdownstreamtime = c2.now
      rw [← hc2]; rfl
    · show c2.selecttimeout = _
      rw [← hc2]; show (pingState c1).selecttimeout = _; rw [hpf.selto, hc1fr]
    · show c2.now = _
      rw [← hc2]; show (pingState c1).now = _; rw [hpf.now, hpl.hc1, advanceClock_now]
    · intro _
      rw [hpl.hw2]
      refine ⟨⟨rfl, hc2st, ?_, rfl, rfl, hps.stat, ⟨by rw [hzo]; exact hyl, hps.q, hps.qs, hps.lz⟩, hps.oq, ?_, ?_, ?_, ?_⟩, ?_, ?_, ?_⟩
      · rw [← hc2]; exact hidle
      · show (Server.getUser s' P.u).inpacket.seqno = c2.outpkt.seqno
        rw [hsu0, ← hc2]; rfl
      · show (Server.getUser s' P.u).outpacket.seqno = c2.inpkt.seqno
        rw [hzo, hys, ← hc2]; rfl
      · show Aged P (Server.getUser s' P.u) c2.datacmc 1
        rw [← hc2]; exact hA2
      · show PAged P (Server.getUser s' P.u) c2.randSeed 1
        rw [← hc2]; exact hP2
      · show c2.sendPingSoon = 500
        rw [← hc2]; rfl
      · show c2.inpkt.seqno = sq
        rw [← hc2]; rfl
      · show c2.inpkt.len = 0
        rw [← hc2]; rfl
    · intro hc; omega
  · -- ignored
    have hdn' : (Client.decodeHdr pkt).dnSeq = (pingState c1).inpkt.seqno ∨
        Client.recentSeqno (pingState c1).inpkt.seqno (Client.decodeHdr pkt).dnSeq = true := by
      rw [hdn, hinp, ← hsq]
      by_cases h0 : d = 0
      · left; subst h0; omega
      · right; exact (recentSeqno_behind _ hci d (by omega)).2
    have hstep := recv_dataless_stale hrok hdn'
    generalize hc2 : ackBook (pingState c1) = c2 at hstep
    have hc2st : CStat P c2 := by rw [← hc2]; exact cstat_ackBook hcst
    have hs2 : step w2 .deliverDown = { w2 with down := [], cs := ⟨c2, .tunnel⟩ } := by
      rw [step_deliverDown w2 _ _ hw2down, hci',
        stepC_of { w2 with down := [] } (.rq rq) ⟨c2, .tunnel⟩ [] (.sel (Client.selectOf c2))
          (by show Client.cstep w2.cs _ = _; rw [hw2cs]; exact hstep)
          (by show c2.now = w2.cs.c.now; rw [hw2cs, ← hc2]; rfl)]
      simp [upOfEvents, tunOfCEvents, hw2up]
    have hc2inp : c2.inpkt = w.cs.c.inpkt := by rw [← hc2]; exact hinp
    refine ⟨_, hrun.trans hs2, hpe0, hpe1, by rw [hsteps]; exact hpe2, ?_, ?_, ?_, ?_, ?_, ?_, ?_, ?_, ?_, ?_⟩
    · rw [hpl.hw2]
    · rw [hpl.hw2]
    · rw [hpl.hw2]; exact hfs'
    · rw [hpl.hw2]; exact htun'
    · rw [hpl.hw2]; exact hlp
    · show c2.lastdownstreamtime = c2.now
      rw [← hc2]; rfl
    · show c2.selecttimeout = _
      rw [← hc2]; show (pingState c1).selecttimeout = _; rw [hpf.selto, hc1fr]
    · show c2.now = _
      rw [← hc2]; show (pingState c1).now = _; rw [hpf.now, hpl.hc1, advanceClock_now]
    · intro hc; exact absurd hc hcase
    · intro _
      rw [hpl.hw2]
      refine ⟨⟨rfl, hc2st, ?_, rfl, rfl, hps.stat, ⟨by rw [hzo]; exact hyl, hps.q, hps.qs, hps.lz⟩, hps.oq, ?_, ?_, ?_, ?_⟩, ?_, hc2inp⟩
      · rw [← hc2]; exact hidle
      · show c2.outpkt.seqno = ((Server.getUser s' P.u).inpacket.seqno + (0 : Nat)) % 8
        rw [hsu0, ← hc2]
        show (pingState c1).outpkt.seqno = ((pingState c1).outpkt.seqno + (0 : Nat)) % 8
        have := hcst.oseq
        omega
      · show (Server.getUser s' P.u).outpacket.seqno = (c2.inpkt.seqno + d) % 8
        rw [hzo, hys, hc2inp, hsq]
      · show Aged P (Server.getUser s' P.u) c2.datacmc 1
        rw [← hc2]; exact hA2
      · show PAged P (Server.getUser s' P.u) c2.randSeed 1
        rw [← hc2]; exact hP2
      · show c2.sendPingSoon = 0
        rw [← hc2]; exact hpf.sps

/-- **idle_poll_resyncs_down.**  From a quiescent joint state in which the server's downstream sequence number is `d ∈ 1..4`
ahead of the client's, with timer room for one poll: the client's next poll — `tickC` (its `select` times out, a ping goes
out), `deliverUp` (the server answers dataless, carrying its number), `deliverDown` (the number is outside the window: the
client ADOPTS it, `send_ping_soon := 500`) — ends in a SYNCHRONISED quiescent state; nothing is written to either tun device.
The 500 ms timer then causes one more poll (no whole second passes), after which `send_ping_soon = 0` and the state is
still synchronised and quiescent. -/
theorem idle_poll_resyncs_down {P : Par} (hP : P.Ok) {w : W} {d : Nat} (hq : QuietImmD P 0 d w) (hd : 1 ≤ d ∧ d ≤ 4)
    (hto : (Client.selectOf w.cs.c).to < 10000000)
    (hexp : ¬ w.cs.c.lastdownstreamtime + 60 < w.cs.c.now + ((Client.selectOf w.cs.c).to / 1000000).toNat)
    (hlive : w.srv.now + ((Client.selectOf w.cs.c).to / 1000000).toNat < (Server.getUser w.srv P.u).lastPkt + 60) :
    ∃ w1 w2, run w [.tickC, .deliverUp, .deliverDown] = w1 ∧ QuietImm P w1 ∧ w1.cs.c.sendPingSoon = 500 ∧
      w1.cs.c.inpkt.seqno = (w.cs.c.inpkt.seqno + d) % 8 ∧
      w1.tunC = w.tunC ∧ w1.tunS = w.tunS ∧ w1.cs.c.now = w1.cs.c.lastdownstreamtime ∧
      run w1 [.tickC, .deliverUp, .deliverDown] = w2 ∧ QuietImm P w2 ∧ w2.cs.c.sendPingSoon = 0 ∧
      w2.cs.c.inpkt = w1.cs.c.inpkt ∧ w2.tunC = w.tunC ∧ w2.tunS = w.tunS ∧ w2.cs.c.now = w1.cs.c.now := by
  obtain ⟨w1, hr1, _, _, _, a1, a2, _, _, _, a6, _, _, hadopt, _⟩ := idle_poll hP hq (by omega) hto hexp hlive
  obtain ⟨hq1, hsps1, hseq1, _⟩ := hadopt hd
  have hq1D := quietImmD_zero.2 hq1
  obtain ⟨t1, t2, t3⟩ := timing_sps hq1.cst hq1.srv hsps1
  obtain ⟨w2, hr2, _, _, _, b1, b2, _, _, _, _, _, b7, _, hstale⟩ := idle_poll hP hq1D (by omega) t1 t2 t3
  obtain ⟨hq2, hsps2, hinp2⟩ := hstale (Or.inl rfl)
  refine ⟨w1, w2, hr1, hq1, hsps1, hseq1, a1, a2, a6.symm, hr2, quietImmD_zero.1 hq2, hsps2, hinp2, by rw [b1, a1], by rw [b2, a2], ?_⟩
  have hto1 : (Client.selectOf w1.cs.c).to = 500000 := by simp [Client.selectOf, hsps1]
  rw [b7, hto1]
  rfl

end Iodine.C02L
