import IodineModel.Lemmas.C02N1
/-
C02 / lazy mode, overlapping transfers — server side: the LAST fragment of an upstream packet arrives while the server
holds NO query (`q.id = 0`, `qs.id = 0`) and has no outpacket.  The packet is written to tun, the new query is parked
in `q_sendrealsoon` at once (`qsNew = true`), nothing is sent in this iteration.
-/
namespace Iodine.C02L
open Iodine Iodine.Gen Iodine.Server Iodine.World

/-- the last fragment on a slot that holds no query and has nothing to send: stored, the packet handed on; the new query
goes straight to `q_sendrealsoon` (answered by the next iteration's sweep); nothing is sent -/
theorem dataSess_noq_last (x : Session) (u : Nat) (Q : Query) (h : UpHdr) (payload : List Nat) (now : Nat) (I : Packet)
    (hout : x.outpacket.len = 0) (hq : x.q.id = 0) (hqs : x.qs.id = 0) (hlast : h.last = true)
    (hup : dataUpstream x h.upSeq h.upFrag = ({ x with inpacket := I }, true)) :
    dataSess x u Q h payload now =
      (parkQ (saveQ (fullSess (stored x I payload)) Q now), fullEvs (stored x I payload)) := by
  unfold dataSess
  rw [dataASess_accept x h payload I hout hup]
  simp only [hlast, and_self, if_true]
  have e1 : stepQsSess (fullSess (stored x I payload)) u = ((fullSess (stored x I payload), []), false) := by
    simp [stepQsSess, fullSess, stored, dataStore, hqs]
  rw [e1]
  simp only
  have e2 : stepQSess (fullSess (stored x I payload)) u true true false = ((fullSess (stored x I payload), []), false) := by
    unfold stepQSess
    rw [if_neg (by simp [fullSess, stored, dataStore, hq])]
  rw [e2]
  simp only
  have e3 : stepFinalSess (saveQ (fullSess (stored x I payload)) Q now) u true true false =
      (parkQ (saveQ (fullSess (stored x I payload)) Q now), []) := by
    simp [stepFinalSess, saveQ, fullSess, stored, dataStore, hout]
  rw [e3]
  simp

theorem srv_recv_last_noq {P : Par} (hP : P.Ok) {s : Srv} (hS : SStat P s) (hp : PingSrvL P s)
    (hout : (getUser s P.u).outpacket.len = 0) {k : Nat} (hk : k < 36) (hA : Aged P (getUser s P.u) k 1)
    {Q : Query} {sq fr : Nat} {dsq dfr : Int} {frame : List Nat} {o m : Nat}
    (hQ : UpQ P Q ⟨sq, fr, dsq, dfr, true⟩ k (((0x5a :: frame).drop o).take m))
    (hE : Expect (getUser s P.u) (0x5a :: frame) sq o fr) (hsq : sq < 8) (hfr : fr < 16)
    (hm : o + m = (0x5a :: frame).length) (h64 : (0x5a :: frame).length ≤ 65536) (h24 : 24 ≤ frame.length)
    (hdst : ipDst frame ≠ (getUser s P.u).tunIp) :
    ∃ s' evs t, iteration s (.q Q) s.now = (s', evs, t) ∧ downOfEvents evs = [] ∧
      tunOfSEvents evs = [[0, 0, 8, 0] ++ frame.drop 4] ∧
      SStat P s' ∧ (getUser s' P.u).q.id = 0 ∧ (getUser s' P.u).qs = Q ∧ (getUser s' P.u).lazy = true ∧
      (getUser s' P.u).outpacket = (getUser s P.u).outpacket ∧ (getUser s' P.u).oqFilled = (getUser s P.u).oqFilled ∧
      (getUser s' P.u).tunIp = (getUser s P.u).tunIp ∧ (getUser s' P.u).fragsize = (getUser s P.u).fragsize ∧
      (getUser s' P.u).inpacket.seqno = (sq : Int) ∧ (getUser s' P.u).inpacket.fragment = (fr : Int) ∧ s'.now = s.now ∧
      (getUser s' P.u).dnscache = (getUser s P.u).dnscache ∧ (getUser s' P.u).dcLast = (getUser s P.u).dcLast ∧
      (getUser s' P.u).qmemdata = (getUser s P.u).qmemdata ∧ (getUser s' P.u).qmemdataLast = (getUser s P.u).qmemdataLast ∧
      (getUser s' P.u).qmemping = (getUser s P.u).qmemping ∧ (getUser s' P.u).qmempingLast = (getUser s P.u).qmempingLast := by
  obtain ⟨dlen, hdl, h6, hparse, hpl⟩ := hQ.parse
  have htop := topSess_live hS
  have hu := hS.solo.lt
  have hF := hA.fresh hk (by omega)
  generalize hx0 : ({ getUser s P.u with qsNew := false } : Session) = x0 at htop
  have hx0s : XStat P x0 := by subst hx0; exact ⟨hS.x.active, hS.x.auth, hS.x.enabled, hS.x.conn, hS.x.enc, hS.x.oseq, hS.x.ofrag, hS.x.iseq, hS.x.ifrag⟩
  have hx0out : x0.outpacket.len = 0 := by subst hx0; exact hout
  have hx0q : x0.q.id = 0 := by subst hx0; exact hp.q
  have hx0qs : x0.qs.id = 0 := by subst hx0; exact hp.qs
  have hx0lz : x0.lazy = true := by subst hx0; exact hp.lz
  have hx0f : Fresh P x0 k (0 + 1) := by subst hx0; exact ⟨hF.cache, hF.qmem⟩
  have hx0e : Expect x0 (0x5a :: frame) sq o fr := by subst hx0; exact hE
  have hx0o : x0.outpacket = (getUser s P.u).outpacket := by subst hx0; rfl
  have hx0h : x0.host = (getUser s P.u).host := by subst hx0; rfl
  have hx0t : x0.tunIp = (getUser s P.u).tunIp := by subst hx0; rfl
  have hx0c : x0.dnscache = (getUser s P.u).dnscache := by subst hx0; rfl
  have hx0m : x0.qmemdata = (getUser s P.u).qmemdata := by subst hx0; rfl
  have hx0oq : x0.oqFilled = (getUser s P.u).oqFilled := by subst hx0; rfl
  obtain ⟨I, hup, hI⟩ := accept_of_expect hx0e hx0s.iseq
  obtain ⟨e1, e2, e3, e4, e5, _⟩ := expect_stored hP (sq := sq) (f := fr) hx0s.enc _ hpl hI (Nat.le_of_eq hm) h64
  generalize hst : stored x0 I ((Q.name.take (min dlen 512)).drop 5) = st at e1 e2 e3 e4 e5
  have hstc : core st = core { x0 with inpacket := st.inpacket } := by
    subst hst; unfold stored dataStore; rfl
  have hun : uncompress (st.inpacket.data.take st.inpacket.len) 65536 = some frame := by
    rw [e5, e4, hm, List.take_take, Nat.min_self, List.take_length]
    exact uncompress_compress frame (by simp at h64; omega)
  have hit := iteration_data hS.solo Q s.now dlen hP.hu (by rw [hS.td]; exact hdl) h6 hQ.c0 (hQ.ty ▸ hP.tty) hQ.id
    (admitted_entry hS Q hQ.from_)
    (by rw [htop]; exact hx0f.cacheMiss Q hQ.ty hQ.c0 hQ.c4 hk)
    (by rw [htop]; exact hx0f.qmemMiss Q hQ.ty hQ.c4 hk)
    (by rw [htop]; exact Or.inl hx0q) (by rw [htop]; exact Or.inl hx0qs)
    (by
      rw [htop, hparse]
      intro _
      rw [dataASess_accept x0 _ _ I hx0out hup, hst]
      intro ⟨out', h1, _, _, _, _, _, h7⟩
      rw [hun] at h1
      have : out' = frame := (Option.some.inj h1).symm
      subst this
      have : st.tunIp = x0.tunIp := by have h9 := core_tunIp hstc; exact h9
      rw [this, hx0t] at h7
      exact hdst h7)
  rw [htop, hparse, dataSess_noq_last x0 P.u Q _ _ s.now I hx0out hx0q hx0qs rfl hup, hst] at hit
  simp only at hit
  have hfe : fullEvs st = [writeTun frame] := by
    unfold fullEvs
    rw [hun]
    simp only
    rw [if_pos (by omega)]
  generalize hY : parkQ (saveQ (fullSess st) Q s.now) = Y at hit
  have hYc : core Y = core { x0 with
      inpacket := { st.inpacket with len := 0, offset := 0 }, qs := Q, qsNew := true, q := { Q with id := 0 }, lastPkt := s.now } := by
    subst hY
    have := hstc
    unfold core at this ⊢
    unfold parkQ saveQ fullSess
    simp only [Session.mk.injEq] at this ⊢
    simp [this]
  have fA : Y.active = x0.active := by have h9 := core_active hYc; exact h9
  have fB : Y.authenticated = x0.authenticated := by have h9 := core_authenticated hYc; exact h9
  have fC : Y.disabled = x0.disabled := by have h9 := core_disabled hYc; exact h9
  have fD : Y.conn = x0.conn := by have h9 := core_conn hYc; exact h9
  have fE : Y.encoder = x0.encoder := by have h9 := core_encoder hYc; exact h9
  have fF : Y.outpacket = x0.outpacket := by have h9 := core_outpacket hYc; exact h9
  have fG : Y.inpacket = { st.inpacket with len := 0, offset := 0 } := by have h9 := core_inpacket hYc; exact h9
  have fH : Y.q = { Q with id := 0 } := by have h9 := core_q hYc; exact h9
  have fI : Y.qs = Q := by have h9 := core_qs hYc; exact h9
  have fJ : Y.lazy = x0.lazy := by have h9 := core_lazy hYc; exact h9
  have fK : Y.host = x0.host := by have h9 := core_host hYc; exact h9
  have fL : Y.lastPkt = s.now := by have h9 := core_lastPkt hYc; exact h9
  have fM : Y.qsNew = true := by have h9 := core_qsNew hYc; exact h9
  have fN : Y.dnscache = x0.dnscache := by subst hY; subst hst; rfl
  have fO : Y.qmemdata = x0.qmemdata := by subst hY; subst hst; rfl
  have fN2 : Y.dcLast = x0.dcLast := by subst hY; subst hst; rfl
  have fO2 : Y.qmemdataLast = x0.qmemdataLast := by subst hY; subst hst; rfl
  have fP : Y.qmemping = x0.qmemping := by subst hY; subst hst; rfl
  have fP2 : Y.qmempingLast = x0.qmempingLast := by subst hY; subst hst; rfl
  have fQ : Y.oqFilled = x0.oqFilled := by have h9 := core_oqFilled hYc; exact h9
  have fT : Y.tunIp = x0.tunIp := by have h9 := core_tunIp hYc; exact h9
  have fS : Y.fragsize = x0.fragsize := by have h9 := core_fragsize hYc; exact h9
  -- the sweep leaves the query that was parked in this very iteration alone
  have hsw : sweepSess Y P.u s.now = (Y, []) := by
    unfold sweepSess
    rw [if_neg (by intro hc; have := hc.2.2.2; rw [fM] at this; simp at this)]
  rw [hsw, hfe] at hit
  dsimp only at hit
  have hg : getUser { putUser s P.u Y with now := s.now } P.u = Y := by
    rw [getUser_withNow, getUser_putUser_self _ _ _ hu]
  refine ⟨_, _, _, hit, rfl, rfl, ?_, ?_, ?_, ?_, ?_, ?_, ?_, ?_, ?_, ?_, rfl, ?_, ?_, ?_, ?_, ?_, ?_⟩
  · refine ⟨(hS.solo.putUser Y).withNow _, hS.td, ?_, ?_, ?_⟩
    · rw [hg]
      refine ⟨fA ▸ hx0s.active, fB ▸ hx0s.auth, fC ▸ hx0s.enabled, fD ▸ hx0s.conn, fE ▸ hx0s.enc, fF ▸ hx0s.oseq, fF ▸ hx0s.ofrag, ?_, ?_⟩
      · rw [fG]; show 0 ≤ st.inpacket.seqno ∧ st.inpacket.seqno < 8; rw [e1]; omega
      · rw [fG]; show 0 ≤ st.inpacket.fragment ∧ st.inpacket.fragment < 16; rw [e2]; omega
    · rw [hg, fK, hx0h]; exact hS.host
    · rw [hg, fL]; show s.now < s.now + 60; omega
  · rw [hg, fH]
  · rw [hg, fI]
  · rw [hg, fJ]; exact hx0lz
  · rw [hg, fF, hx0o]
  · rw [hg, fQ, hx0oq]
  · rw [hg, fT, hx0t]
  · rw [hg, fS]; subst hx0; rfl
  · rw [hg, fG]; exact e1
  · rw [hg, fG]; exact e2
  · rw [hg, fN, hx0c]
  · rw [hg, fN2]; subst hx0; rfl
  · rw [hg, fO, hx0m]
  · rw [hg, fO2]; subst hx0; rfl
  · rw [hg, fP]; subst hx0; rfl
  · rw [hg, fP2]; subst hx0; rfl

#print axioms srv_recv_last_noq

end Iodine.C02L
