import IodineModel.Lemmas.C02qD5
import IodineModel.Lemmas.C02qD7
import IodineModel.Lemmas.C02qD8
/-
C02 phase 2, downstream / immediate mode, desynchronised start — non-vacuity of `down_packet_imm_desync_ok`,
`idle_poll_resyncs_down`, `down_packet_imm_desync_drop7`, `recovery_after_giveups_down_imm_partial`, and the two outcomes at
`d = 7` on concrete runs.
-/
namespace Iodine.C02L
open Iodine Iodine.Gen Iodine.World

/-! ### the other theorems: non-vacuity, and the two outcomes at `d = 7` -/

/-- `w` with the client's last downstream fragment number set to `fr` -/
def withFrag (w : W) (fr : Int) : W :=
  { w with cs := ⟨{ w.cs.c with inpkt := { w.cs.c.inpkt with fragment := fr } }, w.cs.ph⟩ }

theorem quietImmD_withFrag {P : Par} {w : W} {d : Nat} (h : QuietImmD P 0 d w) (fr : Int) (hfr : 0 ≤ fr ∧ fr < 16) :
    QuietImmD P 0 d (withFrag w fr) := by
  have hc := h.cst
  exact ⟨h.ph, ⟨hc.running, hc.conn, hc.imm, hc.uid, hc.uch, hc.td, hc.L, hc.enc, hc.ty, hc.cid, hc.cmc, hc.alive, hc.oseq, hc.iseq,
    hfr, hc.seed⟩, h.idleC, h.up, h.down, h.srv, h.idle, h.oq, h.syncu, h.syncd, h.aged, h.paged⟩

theorem roomy_withFrag {P : Par} {w : W} (h : Roomy P w) (fr : Int) : Roomy P (withFrag w fr) := ⟨h.to, h.cli, h.srv⟩

/-- the demo session desynchronised by `d`, the client's last packet having had two fragments -/
def exDf (d : Nat) : W := withFrag (exD d) 1

theorem exDf_quiet (d : Nat) : QuietImmD C02.exP 0 d (exDf d) := quietImmD_withFrag (exD_quiet d) 1 (by decide)

theorem exDf_roomy (d : Nat) : Roomy C02.exP (exDf d) := roomy_withFrag (exD_roomy d) 1

/-- non-vacuity of `down_packet_imm_desync_ok`, and the theorem applied: desynchronised by 3 the two-fragment frame arrives
after the usual 8 steps and the session is synchronised -/
example : ∃ w', promptSteps 0 8 (step (exD 3) (.offerS (demoFrame 2 30))) = some w' ∧ QuietImm C02.exP w' ∧
    w'.tunC = [demoFrame 2 30] ∧ w'.tunS = [] := by
  obtain ⟨w', h1, h2, h3, h4, _⟩ := down_packet_imm_desync_ok C02.exP_ok (exD_quiet 3) (by decide) (demoFrame 2 30)
    (by decide +kernel) C02.ex_acceptable_down.1 (exD_roomy 3).to (exD_roomy 3).cli (exD_roomy 3).srv
  have hg : downSteps (downFrags (Server.getUser (exD 3).srv C02.exP.u).fragsize ((demoFrame 2 30).length + 1) ((demoFrame 2 30).length + 1)) = 8 := by
    decide +kernel
  rw [hg] at h1
  have hi : tunImage (demoFrame 2 30) = demoFrame 2 30 := by decide
  exact ⟨w', h1, h2, by rw [h3, hi]; rfl, h4⟩

/-- non-vacuity of `idle_poll_resyncs_down`: desynchronised by 2, one poll synchronises the demo session -/
example : ∃ w1, run (exD 2) [.tickC, .deliverUp, .deliverDown] = w1 ∧ QuietImm C02.exP w1 ∧ w1.cs.c.sendPingSoon = 500 ∧
    w1.tunC = [] ∧ w1.tunS = [] := by
  obtain ⟨w1, _, h1, h2, h3, _, h5, h6, _⟩ := idle_poll_resyncs_down C02.exP_ok (exD_quiet 2) (by decide)
    (exD_roomy 2).to (exD_roomy 2).cli (exD_roomy 2).srv
  exact ⟨w1, h1, h2, h3, h5, h6⟩

/-- non-vacuity of `down_packet_imm_desync_drop7` -/
example : ∃ w', promptSteps 0 21 (step (exDf 7) (.offerS (demoFrame 2 30))) = some w' ∧ QuietImm C02.exP w' ∧
    w'.tunC = [] ∧ w'.tunS = [] := by
  obtain ⟨w', h1, h2, h3, h4, _⟩ := down_packet_imm_desync_drop7 C02.exP_ok (exDf_quiet 7) (by decide) (demoFrame 2 30)
    (by decide +kernel) (by decide) (by decide) (by decide +kernel) (exDf_roomy 7).to (exDf_roomy 7).cli (exDf_roomy 7).srv
  have hg : downFrags (Server.getUser (exDf 7).srv C02.exP.u).fragsize ((demoFrame 2 30).length + 1) ((demoFrame 2 30).length + 1) = 2 := by
    decide +kernel
  rw [hg] at h1
  exact ⟨w', h1, h2, h3, h4⟩

/-- **desync7_both_outcomes** (concrete runs, evaluated by the kernel).  The server's number 7 ahead, i.e. the next packet
carries the client's OWN number: with `inpkt.fragment = 0` (and `inpkt.len = 0`) the client takes it through the "weird
situation" clause — delivered in the usual 8 steps; with `inpkt.fragment = 1` fragment 0 is a "duplicate fragment" — lost after
21 steps.  Either way the numbers are equal afterwards. -/
theorem desync7_both_outcomes :
    runPromptCount 0 40 (step (exD 7) (.offerS (demoFrame 2 30))) 0 =
      (runPrompt 0 40 (step (exD 7) (.offerS (demoFrame 2 30))), 8) ∧
    (runPrompt 0 40 (step (exD 7) (.offerS (demoFrame 2 30)))).tunC = [demoFrame 2 30] ∧
    runPromptCount 0 40 (step (exDf 7) (.offerS (demoFrame 2 30))) 0 =
      (runPrompt 0 40 (step (exDf 7) (.offerS (demoFrame 2 30))), 21) ∧
    (runPrompt 0 40 (step (exDf 7) (.offerS (demoFrame 2 30)))).tunC = [] ∧
    (Server.getUser (runPrompt 0 40 (step (exD 7) (.offerS (demoFrame 2 30)))).srv 0).outpacket.seqno =
      (runPrompt 0 40 (step (exD 7) (.offerS (demoFrame 2 30)))).cs.c.inpkt.seqno ∧
    (Server.getUser (runPrompt 0 40 (step (exDf 7) (.offerS (demoFrame 2 30)))).srv 0).outpacket.seqno =
      (runPrompt 0 40 (step (exDf 7) (.offerS (demoFrame 2 30)))).cs.c.inpkt.seqno :=
  ⟨by decide +kernel, by decide +kernel, by decide +kernel, by decide +kernel, by decide +kernel, by decide +kernel⟩

/-- non-vacuity of `recovery_after_giveups_down_imm_partial`, and the theorem applied: 5 ahead, last fragment number 1: of
five frames the first three are lost, the last two arrive -/
example : (offerAllS 0 40 (exDf 5) [demoFrame 2 30, demoFrame 2 4, demoFrame 2 31, demoFrame 2 5, demoFrame 2 32]).tunC =
    [demoFrame 2 5, demoFrame 2 32] := by
  have hok : ∀ f ∈ [demoFrame 2 30, demoFrame 2 4, demoFrame 2 31] ++ [demoFrame 2 5, demoFrame 2 32],
      DownFrameOk (Server.getUser (exDf 5).srv C02.exP.u).tunIp (Server.getUser (exDf 5).srv C02.exP.u).fragsize f := by
    intro f hf
    simp only [List.cons_append, List.nil_append, List.mem_cons, List.not_mem_nil, or_false] at hf
    rcases hf with rfl | rfl | rfl | rfl | rfl <;>
      exact ⟨by decide, by decide, by decide +kernel, by decide +kernel⟩
  have := (recovery_after_giveups_down_imm_partial C02.exP_ok 40 (by decide) [demoFrame 2 30, demoFrame 2 4, demoFrame 2 31]
    [demoFrame 2 5, demoFrame 2 32] (exDf 5) 5 (by decide) (by decide) (exDf_quiet 5) (by decide) (exDf_roomy 5) (by decide)
    (by decide +kernel) hok).2.1
  show (offerAllS C02.exP.u 40 (exDf 5) ([demoFrame 2 30, demoFrame 2 4, demoFrame 2 31] ++ [demoFrame 2 5, demoFrame 2 32])).tunC = _
  rw [this]
  decide

end Iodine.C02L
