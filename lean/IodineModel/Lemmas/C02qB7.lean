import IodineModel.Lemmas.C02qB5
/-
C02, phase 2, sub-package "blackout" — part 7: COMPOSITION WITNESS, `k = 4` (kernel-evaluated).
Four frames given up under the upstream blackout (`bk_chain4`: the state is `bkW 4`), then the clean prompt path:
of the next five frames offered one after the other the first FOUR are lost for good (the server takes their first fragment
for a duplicate of a recent packet; the client resends three times and gives up: 4 s each), the fifth is delivered.
-/
namespace Iodine.C02L
open Iodine Iodine.Gen Iodine.World Iodine.C02

/-- offer the frames one after the other on the clean prompt path (80 steps of fuel each); the run ends quiescent (as it
started) and the server's tun device received exactly `expect`, the client's nothing -/
def cleanAfter (w : W) (frames expect : List (List Nat)) : Bool :=
  let w' := offerAllC 0 80 w frames
  quiet 0 w && quiet 0 w' && w'.tunS == expect && w'.tunC == []

/-- TEST `k = 4`: the next 4 frames are lost, the 5th is delivered -/
theorem compose_k4 : cleanAfter (bkW 4) [fB 0, fB 1, fB 2, fB 3, fB 4] [fB 4] = true := by decide +kernel

/-- … spelled out with the run from `exW` -/
theorem compose_k4' :
    (offerAllC 0 80 (giveupRunUp [fA 0, fA 1, fA 2, fA 3] exW) [fB 0, fB 1, fB 2, fB 3, fB 4]).tunS = [fB 4] := by
  have := compose_k4
  rw [bk_chain4]
  unfold cleanAfter at this
  simp only [Bool.and_eq_true, beq_iff_eq] at this
  exact this.1.2

end Iodine.C02L
