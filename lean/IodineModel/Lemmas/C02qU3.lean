import IodineModel.Lemmas.C02qU2
/-
C02, phase 2 — upstream, immediate mode, desynchronised: one ROUND of a packet that falls into the server's window.
`deliverUp` (the server drops the fragment and answers with its own numbers), `deliverDown` (the ack does not match: the
client goes on waiting), `tickC` (1 s: resend, or — after three resends — give the packet up and send a ping).
-/
namespace Iodine.C02L
open Iodine Iodine.Gen Iodine.World

/-- fragment 0 of the upstream packet `out` is in flight towards a server in whose duplicate window it falls, and whose own
numbers will not be mistaken for its acknowledgement -/
structure UpStuckS (P : Par) (sl sp : Nat) (out : List Nat) (w : W) (c0 : Client.Cli) : Prop where
  ph : w.cs.ph = .tunnel
  ready : CReady P c0 out 0 0
  cli : w.cs.c = { sentState c0 with sendPingSoon := 0 }
  up : w.up = upOfEvents (Client.sendChunk c0).evs
  down : w.down = []
  srv : SStat P w.srv
  idle : IdleImm (Server.getUser w.srv P.u)
  oq : (Server.getUser w.srv P.u).oqFilled = 0
  win : InWindow (Server.getUser w.srv P.u) c0.outpkt.seqno.toNat 0
  nack : ¬ ((Server.getUser w.srv P.u).inpacket.seqno = c0.outpkt.seqno ∧ (Server.getUser w.srv P.u).inpacket.fragment = 0)
  syncd : (Server.getUser w.srv P.u).outpacket.seqno = c0.inpkt.seqno
  aged : Aged P (Server.getUser w.srv P.u) c0.datacmc sl
  paged : PAged P (Server.getUser w.srv P.u) c0.randSeed sp

abbrev UpStuck (P : Par) (out : List Nat) (w : W) (c0 : Client.Cli) : Prop := UpStuckS P 1 1 out w c0

/-- the client after the non-matching answer: still sending the same chunk; its clock is `now`, its session refreshed -/
structure WaitingS (P : Par) (sl sp : Nat) (out : List Nat) (w : W) (c0 : Client.Cli) : Prop where
  ph : w.cs.ph = .tunnel
  cst : CStat P w.cs.c
  cli : w.cs.c = ackBook { sentState c0 with sendPingSoon := 0 }
  ready : CReady P c0 out 0 0
  up : w.up = []
  down : w.down = []
  srv : SStat P w.srv
  last : (Server.getUser w.srv P.u).lastPkt = w.srv.now
  idle : IdleImm (Server.getUser w.srv P.u)
  oq : (Server.getUser w.srv P.u).oqFilled = 0
  win : InWindow (Server.getUser w.srv P.u) c0.outpkt.seqno.toNat 0
  nack : ¬ ((Server.getUser w.srv P.u).inpacket.seqno = c0.outpkt.seqno ∧ (Server.getUser w.srv P.u).inpacket.fragment = 0)
  syncd : (Server.getUser w.srv P.u).outpacket.seqno = c0.inpkt.seqno
  aged : Aged P (Server.getUser w.srv P.u) ((c0.datacmc + 1) % 36) sl
  paged : PAged P (Server.getUser w.srv P.u) c0.randSeed sp

abbrev Waiting (P : Par) (out : List Nat) (w : W) (c0 : Client.Cli) : Prop := WaitingS P 1 1 out w c0

/-- steps 1 and 2 of a round -/
theorem stuck_exchange {P : Par} (hP : P.Ok) {sl sp : Nat} {out : List Nat} {w : W} {c0 : Client.Cli} (h : UpStuckS P sl sp out w c0)
    (hsl : 1 ≤ sl ∧ sl ≤ 21 := by omega) :
    ∃ w', (∀ k, promptSteps P.u (k + 2) w = promptSteps P.u k w') ∧ WaitingS P sl sp out w' c0 ∧ w'.tunS = w.tunS ∧ w'.tunC = w.tunC ∧
      (Server.getUser w'.srv P.u).inpacket = (Server.getUser w.srv P.u).inpacket ∧
      (Server.getUser w'.srv P.u).tunIp = (Server.getUser w.srv P.u).tunIp ∧
      (Server.getUser w'.srv P.u).fragsize = (Server.getUser w.srv P.u).fragsize ∧ w'.srv.now = w.srv.now := by
  obtain ⟨name, hsend, hm1, hm2, hQ⟩ := send_ready hP h.ready
  have hsf := sentFacts c0
  have hcst := cstat_sent h.ready
  have hup : w.up = [.query (sentState c0).chunkid P.ty name] := by rw [h.up, hsend]; rfl
  have hsqc : ((c0.outpkt.seqno.toNat : Nat) : Int) = c0.outpkt.seqno := by have := h.ready.stat.oseq; omega
  -- step 1: the server receives the fragment, drops it and answers
  obtain ⟨s', evs, t, pkt, hit, hdown, htun, hdup, hfresh, hpaged⟩ :=
    srv_recv_dup hP h.srv h.idle h.ready.stat.cmc h.aged h.paged hQ h.win
  have hq1 : quiet P.u w = false := quiet_false_of_up _ _ _ _ hup
  have hs1 : step w (promptEv w) =
      { w with up := [], srv := s', down := [.ans (sentState c0).chunkid P.ty name pkt] } := by
    rw [promptEv_up w _ _ hup, step_deliverUp w _ _ hup, srvInput_query, stepS_zero { w with up := [] } _ s' evs t hit, hdown, htun]
    simp [h.down, upQuery]
  -- step 2: the client receives the answer
  generalize hw2 : ({ w with up := [], srv := s', down := [.ans (sentState c0).chunkid P.ty name pkt] } : W) = w2 at hs1
  have hw2cs : w2.cs = w.cs := by subst hw2; rfl
  have hw2up : w2.up = [] := by subst hw2; rfl
  have hw2down : w2.down = [.ans (sentState c0).chunkid P.ty name pkt] := by subst hw2; rfl
  have hq2 : quiet P.u w2 = false := quiet_false_of_down _ _ _ _ hw2down
  obtain ⟨y, hpkt, hyo, hyi⟩ := hdup.pkt
  obtain ⟨hlen2, hdn, hus, huf⟩ := ack_hdr (x := Server.getUser w.srv P.u) hpkt (by rw [hyi]; exact h.srv.x.iseq)
    (by rw [hyi]; exact h.srv.x.ifrag) hyo h.srv.x.oseq h.srv.x.ofrag
  generalize hc : ({ sentState c0 with sendPingSoon := 0 } : Client.Cli) = c at hsf hcst
  have hwc : w.cs = ⟨c, .tunnel⟩ := by rw [cstate_eta w.cs h.ph, h.cli, hc]
  generalize hrq : (Client.Rq.mk (pkt.length : Int) (sentState c0).chunkid (answerType P.ty) 0 (name.headD 0) pkt) = rq
  have hcid : c.chunkid = (sentState c0).chunkid := by rw [← hc]
  have hdl : Client.tunnelDns c rq = Client.upstream (ackBook c) (Client.decodeHdr pkt) [] false 2 := by
    have := tunnelDns_dataless c rq (by subst hrq; show name.headD 0 = c.useridChar; rw [headD_eq_getD, hsf.useridChar, h.ready.stat.uch]; exact hQ.c0)
      (by subst hrq; exact hlen2)
      (by subst hrq; unfold Client.recentId; rw [hcid]; simp)
      hsf.sps hcst.imm (by subst hrq; show (Client.decodeHdr pkt).dnSeq = c.inpkt.seqno; rw [hdn, hsf.inpkt]; exact h.syncd)
    subst hrq
    exact this
  have hbk : (ackBook c).outpkt = c.outpkt := rfl
  have hoth := (upstream_other_ack (ackBook c) (Client.decodeHdr pkt) [] false 2
    (by
      rintro ⟨_, h2, h3⟩
      apply h.nack
      rw [hus, hyi, hbk, hsf.oseq] at h2
      rw [huf, hyi, hbk, hsf.ofrag, h.ready.frag] at h3
      exact ⟨h2, by simpa using h3⟩)).1
  have hfp : Client.finalPing (ackBook c) [] false 2 = (ackBook c, [], .ret 2) := by simp [Client.finalPing]
  have hcdst : CStat P (ackBook c) := cstat_ackBook hcst
  have hstep2 : Client.cstep w2.cs (.rq rq) = (⟨ackBook c, .tunnel⟩, [], .sel (Client.selectOf (ackBook c))) := by
    rw [hw2cs, hwc, cstep_rq c rq hcst.running hcst.alive hcst.conn, hdl, hoth, hfp]
    simp [Client.settle, Client.loopTop, hcdst.running]
  have hs2 : step w2 (promptEv w2) = { w2 with down := [], cs := ⟨ackBook c, .tunnel⟩ } := by
    rw [promptEv_down w2 _ _ hw2up hw2down, step_deliverDown w2 _ _ hw2down]
    have hci : cliInput (.ans (sentState c0).chunkid P.ty name pkt) = .rq rq := by subst hrq; rfl
    rw [hci, stepC_of { w2 with down := [] } (.rq rq) ⟨ackBook c, .tunnel⟩ [] (.sel (Client.selectOf (ackBook c))) (by exact hstep2)
      (by show (ackBook c).now = w2.cs.c.now; rw [hw2cs, hwc]; rfl)]
    simp [upOfEvents, tunOfCEvents, hw2up]
  refine ⟨{ w2 with down := [], cs := ⟨ackBook c, .tunnel⟩ }, ?_, ?_, ?_, ?_, ?_, ?_, ?_, ?_⟩
  · intro k
    rw [promptSteps_succ hq1 (k + 1), hs1, promptSteps_succ hq2 k, hs2]
  · subst hw2
    refine ⟨rfl, hcdst, by rw [← hc], h.ready, rfl, rfl, hdup.stat, by rw [hdup.last, hdup.now], hdup.idle,
      by rw [hdup.oq]; exact h.oq, ?_, ?_, by rw [hdup.outp]; exact h.syncd, hfresh, hpaged⟩
    · unfold InWindow; rw [hdup.inp]; exact h.win
    · rw [hdup.inp]; exact h.nack
  · subst hw2; rfl
  · subst hw2; rfl
  · subst hw2; exact hdup.inp
  · subst hw2; exact hdup.tun
  · subst hw2; exact hdup.frag
  · subst hw2; exact hdup.now

end Iodine.C02L
