import IodineModel.Lemmas.C02M4
/-
C02 phase 3 / d7down — part 1: the THIRD way of `tunnel_dns` to take the first fragment of a downstream packet, the "weird
situation" of the C text: the fragment carries the client's CURRENT downstream sequence number, fragment number 0, and the
client has stored nothing of that number (`inpkt.fragment = 0 ∧ inpkt.len = 0`).

`CExpect` (C02d5) is NOT extended: a third clause there would make `both_round_lazy` (C02qO4) false as stated (its `hstale`
is derived from `BothFlightL.exp`; in the weird case the upstream data query acknowledges `(sq, 0)`, which IS the server's
fragment in flight).  Instead: `CWeird`, `CExpectW = CExpect ∨ weird`, and copies of the client-side reception lemmas:
`append_expectedW`, `downstream_midW'`, `downstream_lastW'` (any `send_something_now`), `recv_midW`, `recv_lastW` (immediate
mode), `recv_midLW`, `recv_lastLW`, `recv_lastL_nowW` (lazy mode).
-/
namespace Iodine.C02L
open Iodine Iodine.Gen Iodine.World

/-- the "weird situation": the client's current downstream number is `sq` and nothing of it has been stored -/
def CWeird (c : Client.Cli) (sq : Int) : Prop := c.inpkt.seqno = sq ∧ c.inpkt.fragment = 0 ∧ c.inpkt.len = 0

/-- `CExpect`, or the first fragment in the weird situation -/
def CExpectW (c : Client.Cli) (out : List Nat) (sq : Int) (o f : Nat) : Prop :=
  CExpect c out sq o f ∨ (f = 0 ∧ o = 0 ∧ CWeird c sq)

theorem CExpect.toW {c : Client.Cli} {out : List Nat} {sq : Int} {o f : Nat} (h : CExpect c out sq o f) :
    CExpectW c out sq o f := Or.inl h

theorem CWeird.toW {c : Client.Cli} {sq : Int} (h : CWeird c sq) (out : List Nat) : CExpectW c out sq 0 0 :=
  Or.inr ⟨rfl, rfl, h⟩

/-- `CWeird` looks at `inpkt` only -/
theorem CWeird.congr {c c' : Client.Cli} {sq : Int} (h : CWeird c sq) (he : c'.inpkt = c.inpkt) : CWeird c' sq := by
  unfold CWeird at *
  rw [he]; exact h

theorem CExpectW.congrW {c c' : Client.Cli} {out : List Nat} {sq : Int} {o f : Nat} (h : CExpectW c out sq o f)
    (he : c'.inpkt = c.inpkt) : CExpectW c' out sq o f := by
  rcases h with h | ⟨h1, h2, h3⟩
  · left
    unfold CExpect at *
    rw [he]; exact h
  · exact Or.inr ⟨h1, h2, h3.congr he⟩

/-- an expected fragment — the weird situation included — is accepted and appended -/
theorem append_expectedW (c : Client.Cli) (h : Client.Hdr) (buf out : List Nat) (sq : Int) (o m f : Nat)
    (hE : CExpectW c out sq o f) (hs : 0 ≤ c.inpkt.seqno ∧ c.inpkt.seqno < 8) (hsq : 0 ≤ sq ∧ sq < 8) (hf : f < 16)
    (hh : h.dnSeq = sq ∧ h.dnFrag = (f : Int))
    (hbl : buf.length = 2 + m) (hbd : buf.drop 2 = (out.drop o).take m) (hm : 1 ≤ m) (hom : o + m ≤ out.length)
    (h64 : out.length ≤ 65536) :
    ∃ c2, Client.acceptFragment c h = some c2 ∧
      Client.appendFragment c2 h buf ((2 + m : Nat) : Int) = { c with inpkt := inAfter c out sq o m f } := by
  rcases hE with hE | ⟨h1, h2, h3, h4, h5⟩
  · exact append_expected c h buf out sq o m f hE hs hsq hf hh hbl hbd hm hom h64
  · have hchunk : ((buf.take ((2 + m : Nat) : Int).toNat).drop 2) = (out.drop o).take m := by
      rw [Int.toNat_natCast, List.take_of_length_le (by omega), hbd]
    have hcl : ((out.drop o).take m).length = m := by rw [List.length_take, List.length_drop]; omega
    subst h1; subst h2; subst h3
    refine ⟨c, ?_, ?_⟩
    · unfold Client.acceptFragment
      rw [if_neg (by rw [hh.1]; simp), if_pos ⟨h4, hh.2, h5⟩]
    · unfold Client.appendFragment inAfter
      simp only [hchunk, Gen.PACKET_DATA_SIZE, h5, Nat.sub_zero, List.take_zero, List.nil_append, Nat.zero_add]
      rw [List.take_of_length_le (by rw [hcl]; omega), hcl, hh.2, sChar_small' _ (by omega)]
      simp

/-- `downstream_mid'` for `CExpectW` -/
theorem downstream_midW' (c : Client.Cli) (h : Client.Hdr) (buf out : List Nat) (sq : Int) (o m f : Nat) (sn : Bool)
    (hE : CExpectW c out sq o f) (hs : 0 ≤ c.inpkt.seqno ∧ c.inpkt.seqno < 8) (hsq : 0 ≤ sq ∧ sq < 8) (hf : f < 16)
    (hh : h.dnSeq = sq ∧ h.dnFrag = (f : Int)) (hl : h.last = false)
    (hbl : buf.length = 2 + m) (hbd : buf.drop 2 = (out.drop o).take m) (hm : 1 ≤ m) (hom : o + m ≤ out.length)
    (h64 : out.length ≤ 65536) :
    Client.downstream c h buf ((2 + m : Nat) : Int) sn = ({ c with inpkt := inAfter c out sq o m f }, [], true) := by
  obtain ⟨c2, ha, hap⟩ := append_expectedW c h buf out sq o m f hE hs hsq hf hh hbl hbd hm hom h64
  unfold Client.downstream
  rw [if_pos (by omega), ha]
  simp only [hap, hl, Bool.false_eq_true, if_false]
  rw [if_neg (by show ¬ (o + m = 0); omega)]

/-- `downstream_last'` for `CExpectW` -/
theorem downstream_lastW' (c : Client.Cli) (h : Client.Hdr) (buf : List Nat) (frame : List Nat) (sq : Int) (o m f : Nat) (sn : Bool)
    (hE : CExpectW c (0x5a :: frame) sq o f) (hs : 0 ≤ c.inpkt.seqno ∧ c.inpkt.seqno < 8) (hsq : 0 ≤ sq ∧ sq < 8) (hf : f < 16)
    (hh : h.dnSeq = sq ∧ h.dnFrag = (f : Int)) (hl : h.last = true)
    (hbl : buf.length = 2 + m) (hbd : buf.drop 2 = ((0x5a :: frame).drop o).take m) (hm : 1 ≤ m)
    (hom : o + m = (0x5a :: frame).length) (h64 : (0x5a :: frame).length ≤ 65536) :
    Client.downstream c h buf ((2 + m : Nat) : Int) sn =
      ({ c with inpkt := { inAfter c (0x5a :: frame) sq o m f with len := 0 }, sendPingSoon := 5 }, [Client.writeTun frame], sn) := by
  obtain ⟨c2, ha, hap⟩ := append_expectedW c h buf (0x5a :: frame) sq o m f hE hs hsq hf hh hbl hbd hm (by omega) h64
  have hun : Client.uncompress ((inAfter c (0x5a :: frame) sq o m f).data.take (inAfter c (0x5a :: frame) sq o m f).len) 65536 = some frame := by
    unfold inAfter
    simp only
    rw [hom, List.take_take, Nat.min_self, List.take_length]
    unfold Client.uncompress
    simp only [List.length_cons] at h64
    simp
    omega
  unfold Client.downstream
  rw [if_pos (by omega), ha]
  simp only [hap, hl, if_true]
  unfold Client.deliver
  simp only [hun]
  rfl

theorem cexpectW_ackBook {c : Client.Cli} {out : List Nat} {sq : Int} {o f : Nat} (h : CExpectW c out sq o f) :
    CExpectW (ackBook c) out sq o f := h

theorem cexpectW_hintBook {c : Client.Cli} {out : List Nat} {sq : Int} {o f : Nat} (h : CExpectW c out sq o f) :
    CExpectW (hintBook c) out sq o f := h

/-! ### immediate mode -/

/-- `recv_mid` for `CExpectW` -/
theorem recv_midW {P : Par} (hP : P.Ok) {c : Client.Cli} {rq : Client.Rq} {pkt out : List Nat} {sq : Int} {o D f : Nat}
    (h : RecvOk P c rq pkt) (hp : FragPkt pkt out sq o D f false) (hD : 0 < D)
    (hdup : sq = c.inpkt.seqno ∨ Client.recentSeqno c.inpkt.seqno sq = false)
    (hE : CExpectW c out sq o f) (hsq : 0 ≤ sq ∧ sq < 8) (hf : f < 16) (hle : o + D ≤ out.length) (h64 : out.length ≤ 65536) :
    ∃ name, Client.cstep ⟨c, .tunnel⟩ (.rq rq) =
        (⟨pingState (midState c out sq o D f), .tunnel⟩, [.query (pingState (midState c out sq o D f)).chunkid P.ty name],
         .sel (Client.selectOf (pingState (midState c out sq o D f)))) ∧
      Client.sendPing (midState c out sq o D f) =
        ⟨Client.rotateChunkid { midState c out sq o D f with randSeed := ((midState c out sq o D f).randSeed + 1) % 65536 },
         [.query (pingState (midState c out sq o D f)).chunkid P.ty name], false⟩ ∧
      PingQ P (upQuery (pingState (midState c out sq o D f)).chunkid P.ty name) sq (f : Int) c.randSeed := by
  have hds := downstream_midW' (ackBook c) (Client.decodeHdr pkt) pkt out sq o D f false (cexpectW_ackBook hE) h.cst.iseq hsq hf
    ⟨hp.hdr.1, hp.hdr.2.1⟩ hp.hdr.2.2 hp.len hp.body hD hle h64
  generalize hc3 : midState c out sq o D f = c3
  have hds' : Client.downstream (ackBook c) (Client.decodeHdr pkt) pkt ((2 + D : Nat) : Int) false = (c3, [], true) := by
    rw [hds, ← hc3]; rfl
  have hc3st : CStat P c3 := by rw [← hc3]; exact cstat_mid h.cst out sq o D f hsq hf
  obtain ⟨name, hsend, hpq⟩ := sendPing_ready hP hc3st
  have e : ({ Client.rotateChunkid { c3 with randSeed := (c3.randSeed + 1) % 65536 } with sendPingSoon := 0 } : Client.Cli) =
      pingState c3 := by unfold pingState; rfl
  have e2 : (Client.rotateChunkid { c3 with randSeed := (c3.randSeed + 1) % 65536 }).chunkid = (pingState c3).chunkid := by
    rw [← e]
  refine ⟨name, ?_, ?_, ?_⟩
  · rw [recv_common h hp hD hdup, hds']
    simp only
    have hfp : Client.finalPing c3 [] true ((2 + D : Nat) : Int) =
        Client.afterSend (Client.sendPing c3) [] (.dnsPing ((2 + D : Nat) : Int)) := by simp [Client.finalPing]
    have hrun : (Client.rotateChunkid { c3 with randSeed := (c3.randSeed + 1) % 65536 }).running = true := by
      have : (Client.rotateChunkid { c3 with randSeed := (c3.randSeed + 1) % 65536 }).running = c3.running := by
        simp [Client.rotateChunkid]
      rw [this]; exact hc3st.running
    rw [hfp, settle_afterSend _ _ _ (by rw [hsend]) (by rw [hsend]; exact hrun), hsend]
    simp only [List.nil_append]
    rw [e, e2]
  · rw [hsend, e2]
  · have e3 : c3.inpkt.seqno = sq := by rw [← hc3]; rfl
    have e4 : c3.inpkt.fragment = (f : Int) := by rw [← hc3]; rfl
    have e5 : c3.randSeed = c.randSeed := by rw [← hc3]; rfl
    rw [← e2, ← e3, ← e4, ← e5]
    exact hpq

/-- `recv_last` for `CExpectW` -/
theorem recv_lastW {P : Par} {c : Client.Cli} {rq : Client.Rq} {pkt frame : List Nat} {sq : Int} {o D f : Nat}
    (h : RecvOk P c rq pkt) (hp : FragPkt pkt (0x5a :: frame) sq o D f true) (hD : 0 < D)
    (hdup : sq = c.inpkt.seqno ∨ Client.recentSeqno c.inpkt.seqno sq = false)
    (hE : CExpectW c (0x5a :: frame) sq o f) (hsq : 0 ≤ sq ∧ sq < 8) (hf : f < 16) (heq : o + D = (0x5a :: frame).length)
    (h64 : (0x5a :: frame).length ≤ 65536) :
    Client.cstep ⟨c, .tunnel⟩ (.rq rq) =
      (⟨lastState c (0x5a :: frame) sq o D f, .tunnel⟩, [Client.writeTun frame],
       .sel (Client.selectOf (lastState c (0x5a :: frame) sq o D f))) := by
  have hds := downstream_lastW' (ackBook c) (Client.decodeHdr pkt) pkt frame sq o D f false (cexpectW_ackBook hE) h.cst.iseq hsq hf
    ⟨hp.hdr.1, hp.hdr.2.1⟩ hp.hdr.2.2 hp.len hp.body hD heq h64
  have hst := cstat_last h.cst (0x5a :: frame) sq o D f hsq hf
  rw [recv_common h hp hD hdup, hds]
  simp only
  have hfp : Client.finalPing (lastState c (0x5a :: frame) sq o D f) [Client.writeTun frame] false ((2 + D : Nat) : Int) =
      (lastState c (0x5a :: frame) sq o D f, [Client.writeTun frame], .ret ((2 + D : Nat) : Int)) := by simp [Client.finalPing]
  have hls : ({ ackBook c with inpkt := { inAfter (ackBook c) (0x5a :: frame) sq o D f with len := 0 }, sendPingSoon := 5 } : Client.Cli) =
      lastState c (0x5a :: frame) sq o D f := rfl
  rw [hls, hfp]
  simp [Client.settle, Client.loopTop, hst.running]

/-! ### lazy mode -/

/-- `recv_midL` for `CExpectW` -/
theorem recv_midLW {P : Par} (hP : P.Ok) {c : Client.Cli} {rq : Client.Rq} {pkt out : List Nat} {sq : Int} {o D f : Nat}
    (h : RecvOkL P c rq pkt) (hcnt : CntOk c 1) (hp : FragPkt pkt out sq o D f false) (hD : 0 < D)
    (hdup : sq = c.inpkt.seqno ∨ Client.recentSeqno c.inpkt.seqno sq = false)
    (hE : CExpectW c out sq o f) (hsq : 0 ≤ sq ∧ sq < 8) (hf : f < 16) (hle : o + D ≤ out.length) (h64 : out.length ≤ 65536) :
    ∃ name, Client.cstep ⟨c, .tunnel⟩ (.rq rq) =
        (⟨pingStateL (midStateL c out sq o D f), .tunnel⟩, [.query (pingStateL (midStateL c out sq o D f)).chunkid P.ty name],
         .sel (Client.selectOf (pingStateL (midStateL c out sq o D f)))) ∧
      PingQ P (upQuery (pingStateL (midStateL c out sq o D f)).chunkid P.ty name) sq (f : Int) c.randSeed := by
  have hds := downstream_midW' (hintBook c) (Client.decodeHdr pkt) pkt out sq o D f (c.sendPingSoon != 0) (cexpectW_hintBook hE)
    h.cst.iseq hsq hf ⟨hp.hdr.1, hp.hdr.2.1⟩ hp.hdr.2.2 hp.len hp.body hD hle h64
  rw [mid_of_hint] at hds
  have hc3st : CStatL P (midStateL c out sq o D f) := cstatL_mid h.cst out sq o D f hsq hf
  have hc3cnt : CntOk (midStateL c out sq o D f) 1 := (cntOk_mid out sq o D f 0 hcnt).mono (by omega)
  obtain ⟨name, hset, hpq⟩ := settle_finalPing_now hP hc3st hc3cnt [] ((2 + D : Nat) : Int)
  refine ⟨name, ?_, hpq⟩
  rw [recv_commonL h hp hD hdup, hds]
  exact hset

/-- `recv_lastL` for `CExpectW` -/
theorem recv_lastLW {P : Par} {c : Client.Cli} {rq : Client.Rq} {pkt frame : List Nat} {sq : Int} {o D f : Nat}
    (h : RecvOkL P c rq pkt) (hsps : c.sendPingSoon = 0) (hp : FragPkt pkt (0x5a :: frame) sq o D f true) (hD : 0 < D)
    (hdup : sq = c.inpkt.seqno ∨ Client.recentSeqno c.inpkt.seqno sq = false)
    (hE : CExpectW c (0x5a :: frame) sq o f) (hsq : 0 ≤ sq ∧ sq < 8) (hf : f < 16) (heq : o + D = (0x5a :: frame).length)
    (h64 : (0x5a :: frame).length ≤ 65536) :
    Client.cstep ⟨c, .tunnel⟩ (.rq rq) =
      (⟨lastStateL c (0x5a :: frame) sq o D f, .tunnel⟩, [Client.writeTun frame],
       .sel (Client.selectOf (lastStateL c (0x5a :: frame) sq o D f))) := by
  have hds := downstream_lastW' (hintBook c) (Client.decodeHdr pkt) pkt frame sq o D f (c.sendPingSoon != 0) (cexpectW_hintBook hE)
    h.cst.iseq hsq hf ⟨hp.hdr.1, hp.hdr.2.1⟩ hp.hdr.2.2 hp.len hp.body hD heq h64
  have hst := cstatL_last h.cst (0x5a :: frame) sq o D f hsq hf
  have hsn : (c.sendPingSoon != 0) = false := by rw [hsps]; rfl
  rw [recv_commonL h hp hD hdup, hds, hsn]
  simp only
  have hfp : Client.finalPing (lastStateL c (0x5a :: frame) sq o D f) [Client.writeTun frame] false ((2 + D : Nat) : Int) =
      (lastStateL c (0x5a :: frame) sq o D f, [Client.writeTun frame], .ret ((2 + D : Nat) : Int)) := by simp [Client.finalPing]
  rw [last_of_hint, hfp]
  simp [Client.settle, Client.loopTop, hst.running]

/-- `recv_lastL_now` for `CExpectW` -/
theorem recv_lastL_nowW {P : Par} (hP : P.Ok) {c : Client.Cli} {rq : Client.Rq} {pkt frame : List Nat} {sq : Int} {o D f : Nat}
    (h : RecvOkL P c rq pkt) (hcnt : CntOk c 1) (hsps : c.sendPingSoon ≠ 0) (hp : FragPkt pkt (0x5a :: frame) sq o D f true) (hD : 0 < D)
    (hdup : sq = c.inpkt.seqno ∨ Client.recentSeqno c.inpkt.seqno sq = false)
    (hE : CExpectW c (0x5a :: frame) sq o f) (hsq : 0 ≤ sq ∧ sq < 8) (hf : f < 16) (heq : o + D = (0x5a :: frame).length)
    (h64 : (0x5a :: frame).length ≤ 65536) :
    ∃ name, Client.cstep ⟨c, .tunnel⟩ (.rq rq) =
        (⟨pingStateL (lastStateL c (0x5a :: frame) sq o D f), .tunnel⟩,
         [Client.writeTun frame, .query (pingStateL (lastStateL c (0x5a :: frame) sq o D f)).chunkid P.ty name],
         .sel (Client.selectOf (pingStateL (lastStateL c (0x5a :: frame) sq o D f)))) ∧
      PingQ P (upQuery (pingStateL (lastStateL c (0x5a :: frame) sq o D f)).chunkid P.ty name) sq (f : Int) c.randSeed := by
  have hds := downstream_lastW' (hintBook c) (Client.decodeHdr pkt) pkt frame sq o D f (c.sendPingSoon != 0) (cexpectW_hintBook hE)
    h.cst.iseq hsq hf ⟨hp.hdr.1, hp.hdr.2.1⟩ hp.hdr.2.2 hp.len hp.body hD heq h64
  rw [last_of_hint] at hds
  have hsn : (c.sendPingSoon != 0) = true := by simpa using hsps
  have hc3st : CStatL P (lastStateL c (0x5a :: frame) sq o D f) := cstatL_last h.cst _ sq o D f hsq hf
  have hc3cnt : CntOk (lastStateL c (0x5a :: frame) sq o D f) 1 := (cntOk_last _ sq o D f 0 hcnt).mono (by omega)
  obtain ⟨name, hset, hpq⟩ := settle_finalPing_now hP hc3st hc3cnt [Client.writeTun frame] ((2 + D : Nat) : Int)
  refine ⟨name, ?_, hpq⟩
  rw [recv_commonL h hp hD hdup, hds, hsn]
  exact hset

end Iodine.C02L
