import IodineModel.Lemmas.C02t
/-
TESTS, part 4 (see `C02t.lean`): both directions at once in immediate mode — a packet is offered on each side before
anything is delivered (the case the theorems of `Props/C02.lean` do not cover).
-/
namespace Iodine.C02L
open Iodine Iodine.World

/-- TEST both directions at once in immediate mode -/
theorem test_imm_both :
    (let w := runPrompt 0 60 (step (step (demoImmediate .b32 .b32) (.offerC (demoFrame 9 30))) (.offerS (demoFrame 2 30)))
     quiet 0 w && w.tunS == [demoFrame 9 30] && w.tunC == [demoFrame 2 30]) = true := by decide +kernel

/-- … the server's packet offered first -/
theorem test_imm_both' :
    (let w := runPrompt 0 60 (step (step (demoImmediate .b32 .b32) (.offerS (demoFrame 2 30))) (.offerC (demoFrame 9 30)))
     quiet 0 w && w.tunS == [demoFrame 9 30] && w.tunC == [demoFrame 2 30]) = true := by decide +kernel

end Iodine.C02L
