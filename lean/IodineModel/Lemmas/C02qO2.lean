import IodineModel.Lemmas.C02N1
/-
C02 / OVERLAPPING transfers, lazy mode — client side: `tunnel_dns` on an answer WITH payload to a query that is one of the
three remembered ones but NOT the most recent one (the lazy-mode hint does not fire), while an upstream packet is being sent.
-/
namespace Iodine.C02L
open Iodine Iodine.Gen Iodine.World

/-- the conditions under which the client processes the answer `rq` (payload `pkt`) to a query that is recent but NOT the most recent one -/
structure RecvPrevL (P : Par) (c : Client.Cli) (rq : Client.Rq) (pkt : List Nat) : Prop where
  cst : CStatL P c
  sps : c.sendPingSoon = 0
  name0 : Client.notData c rq.name0 = false
  rv : rq.rv = (pkt.length : Int)
  buf : rq.buf = pkt
  rid : Client.recentId c rq.id = true
  nid : rq.id ≠ c.chunkid

/-- general form: bookkeeping (no hint), the downstream code with `send_something_now = false`, then the upstream code -/
theorem tunnelDns_payload_prev {P : Par} {c : Client.Cli} {rq : Client.Rq} {pkt : List Nat} (h : RecvPrevL P c rq pkt)
    (hrv : 2 < pkt.length) (hbad : pkt.take 5 ≠ Client.ascii "BADIP")
    (hdup : (Client.decodeHdr pkt).dnSeq = c.inpkt.seqno ∨ Client.recentSeqno c.inpkt.seqno (Client.decodeHdr pkt).dnSeq = false) :
    Client.tunnelDns c rq =
      Client.upstream (Client.downstream (ackBook c) (Client.decodeHdr pkt) pkt (pkt.length : Int) false).1 (Client.decodeHdr pkt)
        (Client.downstream (ackBook c) (Client.decodeHdr pkt) pkt (pkt.length : Int) false).2.1
        (Client.downstream (ackBook c) (Client.decodeHdr pkt) pkt (pkt.length : Int) false).2.2 (pkt.length : Int) := by
  have hsps := h.sps
  have hn := h.name0
  have hrv' := h.rv
  have hbuf := h.buf
  have hne := h.nid
  have hc : { c with sendPingSoon := 0 } = c := by
    cases c; simp_all
  have hrid : Client.recentId (Client.countRecv c) rq.id = true := h.rid
  unfold Client.tunnelDns
  simp only [hn, Bool.false_eq_true, if_false, hrv', hbuf, hsps, bne_self_eq_false, hc]
  rw [if_neg (by omega), if_neg (by intro hh; exact hbad hh.2)]
  have hd : Client.dupeSeqno c (Client.decodeHdr pkt) (pkt.length : Int) = (c, (pkt.length : Int)) := by
    unfold Client.dupeSeqno
    rw [if_neg]
    intro ⟨_, h2, h3⟩
    rcases hdup with h | h
    · exact h2 h
    · rw [h] at h3; exact absurd h3 (by decide)
  simp only [hd, hrid, Bool.not_true, Bool.false_eq_true, if_false]
  have hl : Client.lazyHint { Client.countRecv c with lastdownstreamtime := (Client.countRecv c).now } rq.id =
      ackBook c := by
    unfold Client.lazyHint
    rw [if_neg (by intro hh; exact hne hh.1)]
    rfl
  rw [hl]
  have hda : Client.datalessAdopt (ackBook c) (Client.decodeHdr pkt) (pkt.length : Int) = ackBook c := by
    unfold Client.datalessAdopt
    rw [if_neg (by omega)]
  rw [hda]

/-- (1) an EXPECTED fragment that is not the last one, whose header acknowledges an OLD upstream fragment: appended, and the acknowledging ping is due at once -/
theorem tunnelDns_mid_prev {P : Par} {c : Client.Cli} {rq : Client.Rq} {pkt out : List Nat} {sq : Int} {o D f : Nat}
    (h : RecvPrevL P c rq pkt) (hp : FragPkt pkt out sq o D f false) (hD : 0 < D)
    (hdup : sq = c.inpkt.seqno ∨ Client.recentSeqno c.inpkt.seqno sq = false)
    (hE : CExpect c out sq o f) (hsq : 0 ≤ sq ∧ sq < 8) (hf : f < 16) (hle : o + D ≤ out.length) (h64 : out.length ≤ 65536)
    (hstale : ¬ ((Client.decodeHdr pkt).upSeq = c.outpkt.seqno ∧ (Client.decodeHdr pkt).upFrag = c.outpkt.fragment)) :
    Client.tunnelDns c rq = Client.finalPing (midState c out sq o D f) [] true ((2 + D : Nat) : Int) := by
  have hds := downstream_mid' (ackBook c) (Client.decodeHdr pkt) pkt out sq o D f false (cexpect_ackBook hE)
    h.cst.iseq hsq hf ⟨hp.hdr.1, hp.hdr.2.1⟩ hp.hdr.2.2 hp.len hp.body hD hle h64
  have hms : ({ ackBook c with inpkt := inAfter (ackBook c) out sq o D f } : Client.Cli) = midState c out sq o D f := rfl
  rw [hms] at hds
  rw [tunnelDns_payload_prev h (by rw [hp.len]; omega) hp.notbad (by rw [hp.hdr.1]; exact hdup), hp.len, hds]
  exact (upstream_other_ack (midState c out sq o D f) (Client.decodeHdr pkt) [] true ((2 + D : Nat) : Int)
    (by intro hh; exact hstale hh.2)).1

/-- (2) the LAST expected fragment, header acknowledging an old upstream fragment: the packet is written to tun, a ping is due in 5 ms, nothing is sent -/
theorem tunnelDns_last_prev {P : Par} {c : Client.Cli} {rq : Client.Rq} {pkt frame : List Nat} {sq : Int} {o D f : Nat}
    (h : RecvPrevL P c rq pkt) (hp : FragPkt pkt (0x5a :: frame) sq o D f true) (hD : 0 < D)
    (hdup : sq = c.inpkt.seqno ∨ Client.recentSeqno c.inpkt.seqno sq = false)
    (hE : CExpect c (0x5a :: frame) sq o f) (hsq : 0 ≤ sq ∧ sq < 8) (hf : f < 16) (heq : o + D = (0x5a :: frame).length)
    (h64 : (0x5a :: frame).length ≤ 65536)
    (hstale : ¬ ((Client.decodeHdr pkt).upSeq = c.outpkt.seqno ∧ (Client.decodeHdr pkt).upFrag = c.outpkt.fragment)) :
    Client.tunnelDns c rq = (lastState c (0x5a :: frame) sq o D f, [Client.writeTun frame], .ret ((2 + D : Nat) : Int)) := by
  have hds := downstream_last' (ackBook c) (Client.decodeHdr pkt) pkt frame sq o D f false (cexpect_ackBook hE)
    h.cst.iseq hsq hf ⟨hp.hdr.1, hp.hdr.2.1⟩ hp.hdr.2.2 hp.len hp.body hD heq h64
  have hls : ({ ackBook c with inpkt := { inAfter (ackBook c) (0x5a :: frame) sq o D f with len := 0 }, sendPingSoon := 5 } : Client.Cli) =
      lastState c (0x5a :: frame) sq o D f := rfl
  rw [hls] at hds
  rw [tunnelDns_payload_prev h (by rw [hp.len]; omega) hp.notbad (by rw [hp.hdr.1]; exact hdup), hp.len, hds]
  rw [(upstream_other_ack (lastState c (0x5a :: frame) sq o D f) (Client.decodeHdr pkt) [Client.writeTun frame] false
    ((2 + D : Nat) : Int) (by intro hh; exact hstale hh.2)).1]
  simp [Client.finalPing]

/-- the downstream code on a DUPLICATE of the fragment received last: `send_ping_soon = 500`, nothing else -/
theorem downstream_dup (c : Client.Cli) (h : Client.Hdr) (buf : List Nat) (read : Int) (sn : Bool) (hr : 2 < read)
    (hdn : h.dnSeq = c.inpkt.seqno) (hdf : h.dnFrag ≤ c.inpkt.fragment) (hil : c.inpkt.len ≠ 0) :
    Client.downstream c h buf read sn = ({ c with sendPingSoon := 500 }, [], sn) := by
  have ha : Client.acceptFragment c h = none := by
    unfold Client.acceptFragment
    rw [if_neg (by rw [hdn]; simp), if_neg (by intro hh; exact hil hh.2.2), if_pos hdf]
  unfold Client.downstream
  rw [if_pos (by omega), ha]

/-- (3) a DUPLICATE of the fragment received last (same seqno, fragment number not above the current one, reassembly buffer not empty) whose header acknowledges the upstream
fragment in flight, and more is to be sent: `send_ping_soon = 500` for a moment, then the next chunk goes out -/
theorem tunnelDns_dup_next {P : Par} {c : Client.Cli} {rq : Client.Rq} {pkt : List Nat}
    (h : RecvPrevL P c rq pkt) (hrv : 2 < pkt.length) (hbad : pkt.take 5 ≠ Client.ascii "BADIP")
    (hdn : (Client.decodeHdr pkt).dnSeq = c.inpkt.seqno) (hdf : (Client.decodeHdr pkt).dnFrag ≤ c.inpkt.fragment)
    (hil : c.inpkt.len ≠ 0)
    (hs : Client.isSending c = true) (hus : (Client.decodeHdr pkt).upSeq = c.outpkt.seqno)
    (huf : (Client.decodeHdr pkt).upFrag = c.outpkt.fragment)
    (hlt : c.outpkt.offset + c.outpkt.sentlen < c.outpkt.len) :
    Client.tunnelDns c rq =
      Client.afterSend (Client.sendChunk (ackNext { ackBook c with sendPingSoon := 500 })) [] (.dnsChunk (pkt.length : Int)) := by
  rw [tunnelDns_payload_prev h hrv hbad (Or.inl hdn),
    downstream_dup (ackBook c) (Client.decodeHdr pkt) pkt (pkt.length : Int) false (by omega) hdn hdf hil]
  exact upstream_ack_more _ _ _ _ _ hs hus huf hlt

end Iodine.C02L
