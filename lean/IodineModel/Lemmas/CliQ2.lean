import IodineModel.Lemmas.CliQ1
import IodineModel.Lemmas.Hs
/-
C08 lifted to client sessions, part 2: the HANDSHAKE machine (`Client/Handshake.lean`).

`CBase` is the part of the client's statics the query names depend on and that no code changes in a way that matters
(`topdomain`, `hostname_maxlen`, the range of `downenc` and `datacmc`, the bytes of `outpkt.data`).  `Mid` adds "the
query type is one of the seven tunnel types" (true whenever a query is sent; in flux inside the type autodetection),
`Late` adds "the user-id character is a hex digit" (true after the version reply).

`Good o` is the postcondition of every continuation function: all query events are `EvOk`; a parked state satisfies the
invariant of its position (`Parked`); and if `client_handshake` returned 0 the state is `Late` — what the tunnel phase
starts from.  One lemma per continuation function, bottom-up as in the model; `good_hstep` is the step lemma.
-/
namespace Iodine.CliQ
open Iodine Iodine.Client Iodine.Gen

/-! ### the invariant -/

def DownencOk (d : Nat) : Prop := d = 32 ∨ d = 84 ∨ d = 83 ∨ d = 85 ∨ d = 86 ∨ d = 82

structure CBase (L : Nat) (td : List Nat) (c : Cli) : Prop where
  td : c.topdomain = td
  maxlen : c.hostnameMaxlen = (L : Int)
  downenc : DownencOk c.downenc
  cmc : c.datacmc < 36
  pkt : Codec.Bytes c.outpkt.data
  pktlen : c.outpkt.len = 0 ∨ c.outpkt.data.length = min c.outpkt.len 65536

def UidOk (c : Cli) : Prop := ∃ u, u < 16 ∧ c.useridChar = C02L.hexLower u

def Mid (L : Nat) (td : List Nat) (c : Cli) : Prop := CBase L td c ∧ TType c.doQtype

def Late (L : Nat) (td : List Nat) (c : Cli) : Prop := Mid L td c ∧ UidOk c

/-- `c'` agrees with `c` on everything the invariants look at, except the query type -/
structure Same0 (c c' : Cli) : Prop where
  td : c'.topdomain = c.topdomain
  ml : c'.hostnameMaxlen = c.hostnameMaxlen
  dn : c'.downenc = c.downenc
  cmc : c'.datacmc = c.datacmc
  pkt : c'.outpkt = c.outpkt

structure Same (c c' : Cli) : Prop extends Same0 c c' where
  ty : c'.doQtype = c.doQtype
  uc : c'.useridChar = c.useridChar

theorem CBase.same0 {L : Nat} {td : List Nat} {c c' : Cli} (h : CBase L td c) (e : Same0 c c') : CBase L td c' := by
  obtain ⟨e1, e2, e3, e4, e5⟩ := e
  exact ⟨e1 ▸ h.td, e2 ▸ h.maxlen, e3 ▸ h.downenc, e4 ▸ h.cmc, e5 ▸ h.pkt, e5 ▸ h.pktlen⟩

theorem Mid.same {L : Nat} {td : List Nat} {c c' : Cli} (h : Mid L td c) (e : Same c c') : Mid L td c' :=
  ⟨h.1.same0 e.toSame0, e.ty ▸ h.2⟩

theorem Late.same {L : Nat} {td : List Nat} {c c' : Cli} (h : Late L td c) (e : Same c c') : Late L td c' := by
  refine ⟨h.1.same e, ?_⟩
  obtain ⟨u, hu, huc⟩ := h.2
  exact ⟨u, hu, e.uc ▸ huc⟩

theorem same_rotate (c : Cli) : Same c (rotateChunkid c) := by
  unfold rotateChunkid; exact ⟨⟨rfl, rfl, rfl, rfl, rfl⟩, rfl, rfl⟩

theorem same_bumpSeed (c : Cli) : Same c (bumpSeed c) := ⟨⟨rfl, rfl, rfl, rfl, rfl⟩, rfl, rfl⟩

theorem Same.trans {a b c : Cli} (h1 : Same a b) (h2 : Same b c) : Same a c :=
  ⟨⟨h2.td.trans h1.td, h2.ml.trans h1.ml, h2.dn.trans h1.dn, h2.cmc.trans h1.cmc, h2.pkt.trans h1.pkt⟩,
   h2.ty.trans h1.ty, h2.uc.trans h1.uc⟩

/-- positions whose parameters end up in a query name -/
def DnCodec (codec : Nat) : Prop := codec = 83 ∨ codec = 85 ∨ codec = 86 ∨ codec = 82 ∨ codec = 84

def PosOk : HPos → Prop
  | .downenc codec _ _ => DnCodec codec
  | _ => True

def Early : HPos → Prop
  | .qtype _ _ _ => True
  | .version _ => True
  | _ => False

/-- the invariant of a state parked at `p` -/
def Parked (L : Nat) (td : List Nat) (c : Cli) (p : HPos) : Prop := Mid L td c ∧ PosOk p ∧ (UidOk c ∨ Early p)

structure Good (L : Nat) (td : List Nat) (o : HOut) : Prop where
  evs : EvsOk L td o.2.1
  parked : ∀ p, o.1.pos = some p → Parked L td o.1.c p
  fin : o.2.2 = .finished 0 → Late L td o.1.c

variable {L : Nat} {td : List Nat}

theorem good_done_nz (s : HState) (evs : List CEvent) (rv : Int) (he : EvsOk L td evs) (hrv : rv ≠ 0) :
    Good L td (s.done evs rv) := by
  refine ⟨he, ?_, ?_⟩
  · intro p h; cases h
  · intro h
    simp only [HState.done, Next.finished.injEq] at h
    exact absurd h hrv

theorem good_done_late (s : HState) (evs : List CEvent) (rv : Int) (he : EvsOk L td evs) (hl : Late L td s.c) :
    Good L td (s.done evs rv) := by
  refine ⟨he, ?_, ?_⟩
  · intro p h; cases h
  · intro _; exact hl

theorem good_park (s : HState) (r : Res) (evs : List CEvent) (p : HPos) (he : EvsOk L td evs) (hr : EvsOk L td r.2)
    (hp : Parked L td r.1 p) : Good L td (s.park r evs p) := by
  refine ⟨evsOk_append he hr, ?_, ?_⟩
  · intro p' h
    simp only [HState.park, Option.some.injEq] at h
    subst h; exact hp
  · intro h; cases h

/-! ### the senders of the handshake -/

theorem md5_bytes (m : List Nat) : Codec.Bytes (Login.md5 m) := by
  intro b hb
  simp only [Login.md5, Login.storeLE, List.mem_append, List.mem_cons, List.not_mem_nil, or_false] at hb
  rcases hb with ((h | h) | h) | h <;> (rcases h with rfl | rfl | rfl | rfl <;> exact Nat.mod_lt _ (by omega))

theorem seedBytes_bytes (c : Cli) : Codec.Bytes (seedBytes c) := by
  intro b hb
  simp only [seedBytes, List.mem_cons, List.not_mem_nil, or_false] at hb
  rcases hb with rfl | rfl <;> exact Nat.mod_lt _ (by omega)

theorem maskI_lt (x : Int) (m : Nat) (hm : 0 < m) : maskI x m < m := by
  unfold maskI
  have h1 := Int.emod_nonneg x (show (m : Int) ≠ 0 by omega)
  have h2 := Int.emod_lt_of_pos x (show (0 : Int) < m by omega)
  omega

theorem bytes_append {a b : List Nat} (ha : Codec.Bytes a) (hb : Codec.Bytes b) : Codec.Bytes (a ++ b) := by
  intro x hx
  rcases List.mem_append.mp hx with h | h
  · exact ha x h
  · exact hb x h

/-- what every handshake sender delivers: same statics, good events -/
def SendOk (L : Nat) (td : List Nat) (c : Cli) (r : Res) : Prop := Same c r.1 ∧ EvsOk L td r.2

theorem hsSendPacket_send (E : Env L td) (c : Cli) (hm : Mid L td c) (cmd : Nat) (d : List Nat)
    (hc : cmd ≠ 46 ∧ cmd ≠ 0 ∧ cmd < 256) (hd : d ≠ []) (hb : Codec.Bytes d) : SendOk L td c (hsSendPacket c cmd d) := by
  obtain ⟨h1, _, h3⟩ := hsSendPacket_ok E c cmd d hm.1.td hm.1.maxlen hm.2 hc hd hb
  refine ⟨?_, h3⟩
  rw [h1]; exact same_rotate c

theorem sendVersion_send (E : Env L td) (c : Cli) (hm : Mid L td c) : SendOk L td c (sendVersion c) := by
  unfold sendVersion
  have h := hsSendPacket_send E (bumpSeed c) (hm.same (same_bumpSeed c)) 118
    ([PROTOCOL_VERSION / 2 ^ 24 % 256, PROTOCOL_VERSION / 2 ^ 16 % 256, PROTOCOL_VERSION / 2 ^ 8 % 256,
      PROTOCOL_VERSION % 256] ++ seedBytes c) (by omega) (by simp)
    (bytes_append (by intro b hb; simp only [List.mem_cons, List.not_mem_nil, or_false] at hb
                      rcases hb with rfl | rfl | rfl | rfl <;> exact Nat.mod_lt _ (by omega)) (seedBytes_bytes c))
  exact ⟨(same_bumpSeed c).trans h.1, h.2⟩

theorem sendLogin_send (E : Env L td) (c : Cli) (hm : Mid L td c) (pw : List Nat) (seed : Nat) :
    SendOk L td c (sendLogin c (Login.loginCalcC pw seed)) := by
  unfold sendLogin
  have hb : Codec.Bytes (maskI c.userid 256 :: (((Login.loginCalcC pw seed).take 16 ++ List.replicate 16 0).take 16) ++
      seedBytes c) := by
    apply bytes_append _ (seedBytes_bytes c)
    intro b hb
    rcases List.mem_cons.mp hb with rfl | hb
    · exact maskI_lt _ _ (by omega)
    · have hb := List.mem_of_mem_take hb
      rcases List.mem_append.mp hb with hb | hb
      · exact md5_bytes _ b (List.mem_of_mem_take hb)
      · rw [List.mem_replicate] at hb; omega
  have h := hsSendPacket_send E (bumpSeed c) (hm.same (same_bumpSeed c)) 108 _ (by omega) (by simp) hb
  exact ⟨(same_bumpSeed c).trans h.1, h.2⟩

theorem sendSetFragsize_send (E : Env L td) (c : Cli) (hm : Mid L td c) (f : Int) : SendOk L td c (sendSetFragsize c f) := by
  unfold sendSetFragsize
  have hb : Codec.Bytes ([maskI c.userid 256, maskI f 65536 / 256, maskI f 256] ++ seedBytes c) := by
    apply bytes_append _ (seedBytes_bytes c)
    intro b hb
    simp only [List.mem_cons, List.not_mem_nil, or_false] at hb
    have := maskI_lt f 65536 (by omega)
    rcases hb with rfl | rfl | rfl
    · exact maskI_lt _ _ (by omega)
    · omega
    · exact maskI_lt _ _ (by omega)
  have h := hsSendPacket_send E (bumpSeed c) (hm.same (same_bumpSeed c)) 110 _ (by omega) (by simp) hb
  exact ⟨(same_bumpSeed c).trans h.1, h.2⟩

theorem sendHandshakeQuery_send (E : Env L td) (c : Cli) (hm : Mid L td c) (p : List Nat) (h1 : 1 ≤ p.length)
    (h2 : p.length ≤ 14) (hch : ∀ ch ∈ p, ch ≠ 46 ∧ ch ≠ 0 ∧ ch < 256) : SendOk L td c (sendHandshakeQuery c p) := by
  obtain ⟨e, h⟩ := sendHandshakeQuery_ok E c p hm.1.td hm.2 h1 h2 hch
  refine ⟨?_, h⟩
  rw [e]
  exact Same.trans (b := { c with randSeed := (c.randSeed + 1) % 65536 }) ⟨⟨rfl, rfl, rfl, rfl, rfl⟩, rfl, rfl⟩ (same_rotate _)

theorem toLower_dn {codec : Nat} (h : DnCodec codec) : toLower codec ≠ 46 ∧ toLower codec ≠ 0 ∧ toLower codec < 256 := by
  unfold DnCodec at h
  unfold toLower
  split <;> omega

theorem sendDownenctest_send (E : Env L td) (c : Cli) (hm : Mid L td c) (codec : Nat) (hc : DnCodec codec) :
    SendOk L td c (sendDownenctest c codec) := by
  unfold sendDownenctest
  apply sendHandshakeQuery_send E c hm _ (by simp) (by simp)
  intro ch h
  simp only [List.mem_cons, List.not_mem_nil, or_false] at h
  rcases h with rfl | rfl | rfl
  · omega
  · exact toLower_dn hc
  · exact C02L.b32_5to8_char _

theorem sendLazySwitch_send (E : Env L td) (c : Cli) (hm : Mid L td c) : SendOk L td c (sendLazySwitch c) := by
  unfold sendLazySwitch
  apply sendHandshakeQuery_send E c hm _ (by simp) (by simp)
  intro ch h
  simp only [List.mem_cons, List.not_mem_nil, or_false] at h
  rcases h with rfl | rfl | rfl
  · omega
  · exact C02L.b32_5to8_char _
  · split <;> omega

theorem sendSwitchDown_send (E : Env L td) (c : Cli) (hm : Mid L td c) :
    SendOk L td c (sendHandshakeQuery c (switchDownPrefix c)) := by
  apply sendHandshakeQuery_send E c hm _ (by simp [switchDownPrefix]) (by simp [switchDownPrefix])
  intro ch h
  simp only [switchDownPrefix, List.mem_cons, List.not_mem_nil, or_false] at h
  rcases h with rfl | rfl | rfl
  · omega
  · exact C02L.b32_5to8_char _
  · have := hm.1.downenc
    unfold DownencOk at this
    unfold toLower
    split <;> omega

theorem sendSwitchCodec_send (E : Env L td) (c : Cli) (hm : Mid L td c) (bits : Nat) :
    SendOk L td c (sendHandshakeQuery c [115, b32_5to8 c.userid, b32_5to8 (bits : Int)]) := by
  apply sendHandshakeQuery_send E c hm _ (by simp) (by simp)
  intro ch h
  simp only [List.mem_cons, List.not_mem_nil, or_false] at h
  rcases h with rfl | rfl | rfl
  · omega
  · exact C02L.b32_5to8_char _
  · exact C02L.b32_5to8_char _

theorem sendIpRequest_send (E : Env L td) (c : Cli) (hm : Mid L td c) :
    SendOk L td c (sendHandshakeQuery c [105, b32_5to8 c.userid]) := by
  apply sendHandshakeQuery_send E c hm _ (by simp) (by simp)
  intro ch h
  simp only [List.mem_cons, List.not_mem_nil, or_false] at h
  rcases h with rfl | rfl
  · omega
  · exact C02L.b32_5to8_char _

theorem sendUpenctest_send (E : Env L td) (c : Cli) (hm : Mid L td c) (p : Nat) :
    SendOk L td c (sendUpenctest c (upPattern p)) := by
  obtain ⟨e, h⟩ := sendUpenctest_ok E c p hm.1.td hm.2
  refine ⟨?_, h⟩
  rw [e]
  exact (same_bumpSeed c).trans (same_rotate _)

theorem sendFragsizeProbe_send (E : Env L td) (c : Cli) (hm : Mid L td c) (f : Nat) :
    SendOk L td c (sendFragsizeProbe c f) := by
  obtain ⟨e, h⟩ := sendFragsizeProbe_ok E c f hm.1.td hm.1.maxlen hm.2
  refine ⟨?_, h⟩
  rw [e]
  exact (same_bumpSeed c).trans (same_rotate _)

theorem sendRawUdpLogin_send (s : HState) (seed : Nat) : SendOk L td s.c (sendRawUdpLogin s seed) := by
  refine ⟨⟨⟨rfl, rfl, rfl, rfl, rfl⟩, rfl, rfl⟩, ?_⟩
  intro e he
  simp only [sendRawUdpLogin, List.mem_singleton] at he
  subst he
  trivial

/-- parking behind a sender, in a `Late` state -/
theorem good_park_late (s : HState) (r : Res) (evs : List CEvent) (p : HPos) (hl : Late L td s.c) (he : EvsOk L td evs)
    (hs : SendOk L td s.c r) (hp : PosOk p) : Good L td (s.park r evs p) :=
  good_park s r evs p he hs.2 ⟨(hl.same hs.1).1, hp, Or.inl (hl.same hs.1).2⟩

/-! ### the continuation functions, bottom-up -/

theorem good_hsEnd (s : HState) (evs : List CEvent) (hl : Late L td s.c) (he : EvsOk L td evs) : Good L td (hsEnd s evs) :=
  good_done_late _ _ _ he hl

theorem good_setFragHead (E : Env L td) (s : HState) (evs : List CEvent) (f : Int) (i : Nat) (hl : Late L td s.c)
    (he : EvsOk L td evs) : Good L td (setFragHead s evs f i) := by
  unfold setFragHead
  split
  · exact good_park_late _ _ _ _ hl he (sendSetFragsize_send E _ hl.1 _) trivial
  · exact good_hsEnd _ _ hl he

theorem good_setFragGot (E : Env L td) (s : HState) (f : Int) (i : Nat) (read : Int) (hl : Late L td s.c) :
    Good L td (setFragGot s f i read) := by
  unfold setFragGot
  split
  · exact good_hsEnd _ _ hl evsOk_nil
  · exact good_setFragHead E _ _ _ _ hl evsOk_nil

theorem good_setFragEnter (E : Env L td) (s : HState) (evs : List CEvent) (f : Int) (hl : Late L td s.c)
    (he : EvsOk L td evs) : Good L td (setFragEnter s evs f) :=
  good_setFragHead E _ _ _ _ hl he

theorem good_fragFinish (E : Env L td) (s : HState) (evs : List CEvent) (m : Int) (hl : Late L td s.c)
    (he : EvsOk L td evs) : Good L td (fragFinish s evs m) := by
  unfold fragFinish
  simp only
  repeat' split
  all_goals first
    | exact good_done_nz _ _ _ he (by omega)
    | exact good_setFragEnter E _ _ _ hl he

theorem good_fragHead (E : Env L td) (s : HState) (evs : List CEvent) (pr rg : Nat) (m : Int) (i : Nat) (hl : Late L td s.c)
    (he : EvsOk L td evs) : Good L td (fragHead s evs pr rg m i) := by
  unfold fragHead
  simp only
  repeat' split
  all_goals first
    | exact good_park_late _ _ _ _ hl he (sendFragsizeProbe_send E _ hl.1 _) trivial
    | exact good_fragFinish E _ _ _ hl he

theorem good_fragGot (E : Env L td) (s : HState) (pr rg : Nat) (m : Int) (i : Nat) (read : Int) (hl : Late L td s.c) :
    Good L td (fragGot s pr rg m i read) := by
  unfold fragGot
  simp only
  repeat' split
  all_goals exact good_fragHead E _ _ _ _ _ _ hl evsOk_nil

theorem good_fragEnter (E : Env L td) (s : HState) (evs : List CEvent) (hl : Late L td s.c) (he : EvsOk L td evs) :
    Good L td (fragEnter s evs) := by
  unfold fragEnter
  simp only
  split
  · exact good_fragHead E _ _ _ _ _ _ hl he
  · exact good_fragFinish E _ _ _ hl he

theorem good_afterLazy (E : Env L td) (s : HState) (evs : List CEvent) (hl : Late L td s.c) (he : EvsOk L td evs) :
    Good L td (afterLazy s evs) := by
  unfold afterLazy
  repeat' split
  all_goals first
    | exact good_fragEnter E _ _ hl he
    | exact good_setFragEnter E _ _ _ hl he
    | exact good_done_nz _ _ _ he (by omega)

theorem late_lazyRevert (s : HState) (hl : Late L td s.c) : Late L td (lazyRevert s).c :=
  hl.same ⟨⟨rfl, rfl, rfl, rfl, rfl⟩, rfl, rfl⟩

theorem good_lazyHead (E : Env L td) (s : HState) (evs : List CEvent) (i : Nat) (hl : Late L td s.c) (he : EvsOk L td evs) :
    Good L td (lazyHead s evs i) := by
  unfold lazyHead
  repeat' split
  all_goals first
    | exact good_park_late _ _ _ _ hl he (sendLazySwitch_send E _ hl.1) trivial
    | exact good_afterLazy E _ _ hl he
    | exact good_afterLazy E _ _ (late_lazyRevert s hl) he

theorem good_lazyGot (E : Env L td) (s : HState) (i : Nat) (read : Int) (hl : Late L td s.c) :
    Good L td (lazyGot s i read) := by
  unfold lazyGot
  repeat' split
  all_goals first
    | exact good_afterLazy E _ _ (late_lazyRevert s hl) evsOk_nil
    | exact good_lazyHead E _ _ _ hl evsOk_nil
    | exact good_afterLazy E _ _ (hl.same (c' := { s.c with lazymode := true }) ⟨⟨rfl, rfl, rfl, rfl, rfl⟩, rfl, rfl⟩) evsOk_nil

theorem good_afterSwitchDown (E : Env L td) (s : HState) (evs : List CEvent) (hl : Late L td s.c) (he : EvsOk L td evs) :
    Good L td (afterSwitchDown s evs) := by
  unfold afterSwitchDown
  repeat' split
  all_goals first
    | exact good_done_nz _ _ _ he (by omega)
    | exact good_lazyHead E _ _ _ hl he
    | exact good_afterLazy E _ _ hl he

theorem good_switchDownHead (E : Env L td) (s : HState) (evs : List CEvent) (i : Nat) (hl : Late L td s.c)
    (he : EvsOk L td evs) : Good L td (switchDownHead s evs i) := by
  unfold switchDownHead
  split
  · exact good_park_late _ _ _ _ hl he (sendSwitchDown_send E _ hl.1) trivial
  · exact good_afterSwitchDown E _ _ hl he

theorem good_switchDownGot (E : Env L td) (s : HState) (i : Nat) (read : Int) (hl : Late L td s.c) :
    Good L td (switchDownGot s i read) := by
  unfold switchDownGot
  split
  · exact good_afterSwitchDown E _ _ hl evsOk_nil
  · exact good_switchDownHead E _ _ _ hl evsOk_nil

theorem good_afterDownenc (E : Env L td) (s : HState) (evs : List CEvent) (hl : Late L td s.c) (he : EvsOk L td evs) :
    Good L td (afterDownenc s evs) := by
  unfold afterDownenc
  repeat' split
  all_goals first
    | exact good_done_nz _ _ _ he (by omega)
    | exact good_switchDownHead E _ _ _ hl he
    | exact good_afterSwitchDown E _ _ hl he

theorem late_setDownenc (c : Cli) (d : Nat) (hl : Late L td c) (hd : DownencOk d) : Late L td { c with downenc := d } := by
  obtain ⟨⟨hb, ht⟩, hu⟩ := hl
  exact ⟨⟨⟨hb.td, hb.maxlen, hd, hb.cmc, hb.pkt, hb.pktlen⟩, ht⟩, hu⟩

theorem good_downencRet (E : Env L td) (s : HState) (evs : List CEvent) (d : Nat) (hl : Late L td s.c) (he : EvsOk L td evs)
    (hd : DownencOk d) : Good L td (downencRet s evs d) :=
  good_afterDownenc E _ _ (late_setDownenc s.c d hl hd) he

theorem good_downencFinish (E : Env L td) (s : HState) (evs : List CEvent) (a b c : Bool) (hl : Late L td s.c)
    (he : EvsOk L td evs) : Good L td (downencFinish s evs a b c) := by
  unfold downencFinish
  repeat' split
  all_goals exact good_downencRet E _ _ _ hl he (by unfold DownencOk; omega)

theorem good_downencTestRet (E : Env L td) (s : HState) (evs : List CEvent) (codec : Nat) (b64 ok : Bool) (hl : Late L td s.c)
    (he : EvsOk L td evs) : Good L td (downencTestRet s evs codec b64 ok) := by
  unfold downencTestRet
  simp only
  repeat' split
  all_goals first
    | exact good_downencFinish E _ _ _ _ _ hl he
    | exact good_downencRet E _ _ _ hl he (by unfold DownencOk; omega)
    | exact good_park_late { s with inb := [] } _ _ _ hl he
        (sendDownenctest_send E _ hl.1 _ (by unfold DnCodec; omega)) (by unfold PosOk DnCodec; omega)

theorem good_downencTestHead (E : Env L td) (s : HState) (evs : List CEvent) (codec : Nat) (b64 : Bool) (i : Nat)
    (hl : Late L td s.c) (he : EvsOk L td evs) (hc : DnCodec codec) : Good L td (downencTestHead s evs codec b64 i) := by
  unfold downencTestHead
  split
  · exact good_park_late _ _ _ _ hl he (sendDownenctest_send E _ hl.1 _ hc) hc
  · exact good_downencTestRet E _ _ _ _ _ hl he

theorem good_downencTestGot (E : Env L td) (s : HState) (codec : Nat) (b64 : Bool) (i : Nat) (read : Int)
    (hl : Late L td s.c) (hc : DnCodec codec) : Good L td (downencTestGot s codec b64 i read) := by
  unfold downencTestGot
  split
  · exact good_downencTestRet E _ _ _ _ _ hl evsOk_nil
  · exact good_downencTestHead E _ _ _ _ _ hl evsOk_nil hc

theorem good_afterSwitchCodec (E : Env L td) (s : HState) (evs : List CEvent) (hl : Late L td s.c) (he : EvsOk L td evs) :
    Good L td (afterSwitchCodec s evs) := by
  unfold afterSwitchCodec
  repeat' split
  all_goals first
    | exact good_done_nz _ _ _ he (by omega)
    | exact good_downencRet E _ _ _ hl he (by unfold DownencOk; omega)
    | exact good_downencTestHead E _ _ _ _ _ hl he (by unfold DnCodec; omega)
    | exact good_afterDownenc E _ _ hl he

theorem good_switchCodecHead (E : Env L td) (s : HState) (evs : List CEvent) (bits i : Nat) (hl : Late L td s.c)
    (he : EvsOk L td evs) : Good L td (switchCodecHead s evs bits i) := by
  unfold switchCodecHead
  split
  · exact good_park_late _ _ _ _ hl he (sendSwitchCodec_send E _ hl.1 _) trivial
  · exact good_afterSwitchCodec E _ _ hl he

theorem good_switchCodecGot (E : Env L td) (s : HState) (bits i : Nat) (read : Int) (hl : Late L td s.c) :
    Good L td (switchCodecGot s bits i read) := by
  unfold switchCodecGot
  repeat' split
  all_goals first
    | exact good_afterSwitchCodec E _ _ hl evsOk_nil
    | exact good_switchCodecHead E _ _ _ _ hl evsOk_nil
    | exact good_afterSwitchCodec E _ _
        (hl.same (c' := { s.c with dataenc := encOfBits bits }) ⟨⟨rfl, rfl, rfl, rfl, rfl⟩, rfl, rfl⟩) evsOk_nil

theorem good_upencRet (E : Env L td) (s : HState) (evs : List CEvent) (u : Nat) (hl : Late L td s.c) (he : EvsOk L td evs) :
    Good L td (upencRet s evs u) := by
  unfold upencRet
  repeat' split
  all_goals first
    | exact good_done_nz _ _ _ he (by omega)
    | exact good_switchCodecHead E _ _ _ _ hl he
    | exact good_afterSwitchCodec E _ _ hl he

theorem good_upencTestRet (E : Env L td) (s : HState) (evs : List CEvent) (p : Nat) (res : Int) (hl : Late L td s.c)
    (he : EvsOk L td evs) : Good L td (upencTestRet s evs p res) := by
  unfold upencTestRet
  simp only
  repeat' split
  all_goals first
    | exact good_upencRet E _ _ _ hl he
    | exact good_park_late { s with inb := [] } _ _ _ hl he (sendUpenctest_send E _ hl.1 _) trivial

theorem good_upencTestHead (E : Env L td) (s : HState) (evs : List CEvent) (p i : Nat) (hl : Late L td s.c)
    (he : EvsOk L td evs) : Good L td (upencTestHead s evs p i) := by
  unfold upencTestHead
  split
  · exact good_park_late _ _ _ _ hl he (sendUpenctest_send E _ hl.1 _) trivial
  · exact good_upencTestRet E _ _ _ _ hl he

theorem good_upencTestGot (E : Env L td) (s : HState) (p i : Nat) (read : Int) (hl : Late L td s.c) :
    Good L td (upencTestGot s p i read) := by
  unfold upencTestGot
  simp only
  repeat' split
  all_goals first
    | exact good_upencTestRet E _ _ _ _ hl evsOk_nil
    | exact good_upencTestHead E _ _ _ _ hl evsOk_nil

theorem good_ednsRet (E : Env L td) (s : HState) (evs : List CEvent) (ok : Bool) (hl : Late L td s.c) (he : EvsOk L td evs) :
    Good L td (ednsRet s evs ok) := by
  unfold ednsRet
  repeat' split
  all_goals first
    | exact good_done_nz _ _ _ he (by omega)
    | exact good_upencTestHead E _ _ _ _ hl he
    | exact good_upencTestHead E _ _ _ _
        (hl.same (c' := { s.c with edns0 := false }) ⟨⟨rfl, rfl, rfl, rfl, rfl⟩, rfl, rfl⟩) he

theorem ednsCodec_dn (c : Cli) : DnCodec (ednsCodec c) := by
  unfold ednsCodec DnCodec; split <;> omega

theorem good_ednsHead (E : Env L td) (s : HState) (evs : List CEvent) (i : Nat) (hl : Late L td s.c) (he : EvsOk L td evs) :
    Good L td (ednsHead s evs i) := by
  unfold ednsHead
  split
  · exact good_park_late _ _ _ _ hl he (sendDownenctest_send E _ hl.1 _ (ednsCodec_dn _)) trivial
  · exact good_ednsRet E _ _ _ hl he

theorem good_ednsGot (E : Env L td) (s : HState) (i : Nat) (read : Int) (hl : Late L td s.c) :
    Good L td (ednsGot s i read) := by
  unfold ednsGot
  split
  · exact good_ednsRet E _ _ _ hl evsOk_nil
  · exact good_ednsHead E _ _ _ hl evsOk_nil

theorem good_dnsBranch (E : Env L td) (s : HState) (evs : List CEvent) (hl : Late L td s.c) (he : EvsOk L td evs) :
    Good L td (dnsBranch s evs) :=
  good_ednsHead E _ _ _ (hl.same (c' := { s.c with edns0 := true }) ⟨⟨rfl, rfl, rfl, rfl, rfl⟩, rfl, rfl⟩) he

theorem good_rawRet (E : Env L td) (s : HState) (evs : List CEvent) (ok : Bool) (hl : Late L td s.c) (he : EvsOk L td evs) :
    Good L td (rawRet s evs ok) := by
  unfold rawRet
  split
  · exact good_done_late _ _ _ he
      (hl.same (c' := { s.c with conn := .rawUdp, selecttimeout := 20 }) ⟨⟨rfl, rfl, rfl, rfl, rfl⟩, rfl, rfl⟩)
  · exact good_dnsBranch E _ _ hl he

theorem good_rawLoginHead (E : Env L td) (s : HState) (evs : List CEvent) (seed i : Nat) (hl : Late L td s.c)
    (he : EvsOk L td evs) : Good L td (rawLoginHead s evs seed i) := by
  unfold rawLoginHead
  split
  · exact good_park_late _ _ _ _ hl he (sendRawUdpLogin_send _ _) trivial
  · exact good_rawRet E _ _ _ hl he

theorem good_rawLoginGot (E : Env L td) (s : HState) (seed i : Nat) (d : Option (List Nat)) (hl : Late L td s.c) :
    Good L td (rawLoginGot s seed i d) := by
  unfold rawLoginGot
  split
  · exact good_rawLoginHead E _ _ _ _ hl evsOk_nil
  · simp only
    split
    · exact good_rawRet E _ _ _ hl evsOk_nil
    · exact good_rawLoginHead E _ _ _ _ hl evsOk_nil

theorem good_rawIpDone (E : Env L td) (s : HState) (evs : List CEvent) (seed : Nat) (g : Bool) (hl : Late L td s.c)
    (he : EvsOk L td evs) : Good L td (rawIpDone s evs seed g) := by
  unfold rawIpDone
  repeat' split
  all_goals first
    | exact good_rawRet E _ _ _ hl he
    | exact good_rawLoginHead E _ _ _ _ hl he

theorem good_rawIpHead (E : Env L td) (s : HState) (evs : List CEvent) (seed i : Nat) (hl : Late L td s.c)
    (he : EvsOk L td evs) : Good L td (rawIpHead s evs seed i) := by
  unfold rawIpHead
  split
  · exact good_park_late _ _ _ _ hl he (sendIpRequest_send E _ hl.1) trivial
  · exact good_rawIpDone E _ _ _ _ hl he

theorem good_rawIpGot (E : Env L td) (s : HState) (seed i : Nat) (read : Int) (hl : Late L td s.c) :
    Good L td (rawIpGot s seed i read) := by
  unfold rawIpGot
  split
  · exact good_rawIpDone E _ _ _ _ hl evsOk_nil
  · exact good_rawIpHead E _ _ _ _ hl evsOk_nil

theorem good_afterLogin (E : Env L td) (s : HState) (evs : List CEvent) (seed : Nat) (hl : Late L td s.c)
    (he : EvsOk L td evs) : Good L td (afterLogin s evs seed) := by
  unfold afterLogin
  split
  · exact good_rawIpHead E _ _ _ _ hl he
  · exact good_dnsBranch E _ _ hl he

theorem good_loginHead (E : Env L td) (s : HState) (evs : List CEvent) (seed i : Nat) (hl : Late L td s.c)
    (he : EvsOk L td evs) : Good L td (loginHead s evs seed i) := by
  unfold loginHead
  split
  · exact good_park_late _ _ _ _ hl he (sendLogin_send E _ hl.1 _ _) trivial
  · exact good_done_nz _ _ _ he (by omega)

theorem evsOk_sys (cmds : List (List Nat)) : EvsOk L td (cmds.map CEvent.sys) := by
  intro e he
  obtain ⟨x, _, rfl⟩ := List.mem_map.mp he
  trivial

theorem good_loginGot (E : Env L td) (s : HState) (seed i : Nat) (read : Int) (hl : Late L td s.c) :
    Good L td (loginGot s seed i read) := by
  unfold loginGot
  split
  · simp only
    split
    · exact good_afterLogin E _ _ _ hl (evsOk_sys _)
    · exact good_done_nz _ _ _ (evsOk_sys _) (by omega)
    · exact good_done_nz _ _ _ (evsOk_sys _) (by omega)
    · refine ⟨evsOk_sys _, ?_, ?_⟩
      · intro p h; cases h
      · intro h; cases h
    · exact good_loginHead E _ _ _ _ hl (evsOk_sys _)
  · exact good_loginHead E _ _ _ _ hl evsOk_nil

/-! ### before the user id is known -/

theorem good_versionHead (E : Env L td) (s : HState) (evs : List CEvent) (i : Nat) (hm : Mid L td s.c)
    (he : EvsOk L td evs) : Good L td (versionHead s evs i) := by
  unfold versionHead
  split
  · have hs := sendVersion_send E s.c hm
    exact good_park _ _ _ _ he hs.2 ⟨hm.same hs.1, trivial, Or.inr trivial⟩
  · exact good_done_nz _ _ _ he (by omega)

theorem hexLower_getD : ∀ u, u < 16 → Client.hexLower.getD u 0 = C02L.hexLower u := by decide

theorem good_versionGot (E : Env L td) (s : HState) (i : Nat) (read : Int) (hm : Mid L td s.c) :
    Good L td (versionGot s i read) := by
  unfold versionGot
  split
  · simp only
    split
    · apply good_loginHead E _ _ _ _ _ evsOk_nil
      refine ⟨⟨⟨hm.1.td, hm.1.maxlen, hm.1.downenc, hm.1.cmc, hm.1.pkt, hm.1.pktlen⟩, hm.2⟩, ?_⟩
      exact ⟨maskI (sChar (s.inAt 8)) 16, maskI_lt _ _ (by omega), hexLower_getD _ (maskI_lt _ _ (by omega))⟩
    · split
      · exact good_done_nz _ _ _ evsOk_nil (by omega)
      · split
        · exact good_done_nz _ _ _ evsOk_nil (by omega)
        · exact good_versionHead E _ _ _ hm evsOk_nil
  · exact good_versionHead E _ _ _ hm evsOk_nil

theorem good_afterQtype (E : Env L td) (s : HState) (evs : List CEvent) (hm : Mid L td s.c) (he : EvsOk L td evs) :
    Good L td (afterQtype s evs) :=
  good_versionHead E _ _ _ hm he

theorem numcvt_ttype (n : Nat) (h : qtypeNumcvt n ≠ T_UNSET) : TType (qtypeNumcvt n) := by
  unfold qtypeNumcvt at h ⊢
  unfold TType
  split <;> simp_all [T_NULL, T_PRIVATE, T_TXT, T_SRV, T_MX, T_CNAME, T_A]

theorem cbase_setQtype (c : Cli) (q : Nat) (hb : CBase L td c) : CBase L td { c with doQtype := q } :=
  ⟨hb.td, hb.maxlen, hb.downenc, hb.cmc, hb.pkt, hb.pktlen⟩

theorem good_qtypeFinish (E : Env L td) (s : HState) (evs : List CEvent) (h : Nat) (hb : CBase L td s.c)
    (he : EvsOk L td evs) : Good L td (qtypeFinish s evs h) := by
  unfold qtypeFinish
  split
  · exact good_done_nz _ _ _ he (by omega)
  · simp only
    split
    · exact good_done_nz _ _ _ he (by omega)
    · rename_i hne
      exact good_afterQtype E _ _ ⟨cbase_setQtype _ _ hb, numcvt_ttype _ hne⟩ he

theorem good_qtypeTest (E : Env L td) (s : HState) (evs : List CEvent) (t q h : Nat) (hm : Mid L td s.c)
    (he : EvsOk L td evs) : Good L td (qtypeTest s evs t q h) := by
  unfold qtypeTest
  simp only
  have hs := sendDownenctest_send E s.c hm (if s.c.doQtype = T_NULL ∨ s.c.doQtype = T_PRIVATE then 82 else 84)
    (by unfold DnCodec; split <;> omega)
  exact good_park { s with inb := [] } _ _ _ he hs.2 ⟨hm.same hs.1, trivial, Or.inr trivial⟩

theorem good_qtypeOuterHead (E : Env L td) (s : HState) (evs : List CEvent) (t h : Nat) (hb : CBase L td s.c)
    (he : EvsOk L td evs) : Good L td (qtypeOuterHead s evs t h) := by
  unfold qtypeOuterHead
  repeat' split
  all_goals first
    | exact good_qtypeFinish E _ _ _ hb he
    | exact good_qtypeTest E _ _ _ _ _ ⟨cbase_setQtype _ _ hb, numcvt_ttype 0 (by decide)⟩ he

theorem good_qtypeAfterInner (E : Env L td) (s : HState) (evs : List CEvent) (t h : Nat) (hb : CBase L td s.c)
    (he : EvsOk L td evs) : Good L td (qtypeAfterInner s evs t h) := by
  unfold qtypeAfterInner
  split
  · exact good_qtypeFinish E _ _ _ hb he
  · exact good_qtypeOuterHead E _ _ _ _ hb he

theorem good_qtypeInnerHead (E : Env L td) (s : HState) (evs : List CEvent) (t q h : Nat) (hb : CBase L td s.c)
    (he : EvsOk L td evs) : Good L td (qtypeInnerHead s evs t q h) := by
  unfold qtypeInnerHead
  split
  · simp only
    split
    · exact good_qtypeAfterInner E _ _ _ _ (cbase_setQtype _ _ hb) he
    · rename_i hne
      exact good_qtypeTest E _ _ _ _ _ ⟨cbase_setQtype _ _ hb, numcvt_ttype _ hne⟩ he
  · exact good_qtypeAfterInner E _ _ _ _ hb he

theorem good_qtypeGot (E : Env L td) (s : HState) (t q h : Nat) (read : Int) (hb : CBase L td s.c) :
    Good L td (qtypeGot s t q h read) := by
  unfold qtypeGot
  split
  · exact good_qtypeAfterInner E _ _ _ _ hb evsOk_nil
  · exact good_qtypeInnerHead E _ _ _ _ _ hb evsOk_nil

/-! ### the machine -/

/-- what iodine.c's `main()` and `client_init()` have established when `client_handshake()` is called -/
structure StartOk (L : Nat) (td : List Nat) (c : Cli) : Prop where
  base : CBase L td c
  ty : TType c.doQtype ∨ c.doQtype = T_UNSET

theorem good_hsStart (E : Env L td) (c : Cli) (args : HsArgs) (pw dev : List Nat) (h : StartOk L td c) :
    Good L td (hsStart c args pw dev) := by
  have hb : CBase L td { c with edns0 := false } := h.base.same0 ⟨rfl, rfl, rfl, rfl, rfl⟩
  unfold hsStart
  simp only
  split
  · exact good_qtypeOuterHead E _ _ _ _ hb evsOk_nil
  · rename_i hne
    rcases h.ty with ht | ht
    · exact good_afterQtype E _ _ ⟨hb, ht⟩ evsOk_nil
    · exact absurd ht hne

theorem good_hsGot (E : Env L td) (s : HState) (p : HPos) (read : Int) (hp : Parked L td s.c p) :
    Good L td (hsGot s p read) := by
  obtain ⟨hm, hpos, hu⟩ := hp
  cases p with
  | qtype t q h => exact good_qtypeGot E _ _ _ _ _ hm.1
  | version i => exact good_versionGot E _ _ _ hm
  | login seed i => exact good_loginGot E _ _ _ _ ⟨hm, hu.resolve_right id⟩
  | rawIp seed i => exact good_rawIpGot E _ _ _ _ ⟨hm, hu.resolve_right id⟩
  | rawLogin seed i => exact good_rawLoginGot E s seed i none ⟨hm, hu.resolve_right id⟩
  | edns i => exact good_ednsGot E _ _ _ ⟨hm, hu.resolve_right id⟩
  | upenc p i => exact good_upencTestGot E _ _ _ _ ⟨hm, hu.resolve_right id⟩
  | switchCodec b i => exact good_switchCodecGot E _ _ _ _ ⟨hm, hu.resolve_right id⟩
  | downenc cd b i => exact good_downencTestGot E _ _ _ _ _ ⟨hm, hu.resolve_right id⟩ hpos
  | switchDown i => exact good_switchDownGot E _ _ _ ⟨hm, hu.resolve_right id⟩
  | lazy i => exact good_lazyGot E _ _ _ ⟨hm, hu.resolve_right id⟩
  | frag pr r m i => exact good_fragGot E _ _ _ _ _ _ ⟨hm, hu.resolve_right id⟩
  | setFrag f i => exact good_setFragGot E _ _ _ _ ⟨hm, hu.resolve_right id⟩

/-- `handshake_waitdns` only touches the clock and `in[]` -/
theorem hsWaitRound_same (s : HState) (c1 bl : Nat) (w : WaitIn) :
    Same s.c (hsWaitRound s c1 bl w).1.c ∧ (hsWaitRound s c1 bl w).1.pos = s.pos := by
  unfold hsWaitRound
  split
  · exact ⟨⟨⟨rfl, rfl, rfl, rfl, rfl⟩, rfl, rfl⟩, rfl⟩
  · simp only
    repeat' split
    all_goals exact ⟨⟨⟨rfl, rfl, rfl, rfl, rfl⟩, rfl, rfl⟩, rfl⟩

theorem parked_same {c c' : Cli} {p : HPos} (h : Parked L td c p) (e : Same c c') : Parked L td c' p := by
  obtain ⟨hm, hp, hu⟩ := h
  refine ⟨hm.same e, hp, ?_⟩
  rcases hu with ⟨u, hu, huc⟩ | hu
  · exact Or.inl ⟨u, hu, e.uc ▸ huc⟩
  · exact Or.inr hu

theorem good_hstepAt (E : Env L td) (s : HState) (p : HPos) (f : Fired) (hpos : s.pos = some p) (hp : Parked L td s.c p) :
    Good L td (hstepAt s p f) := by
  unfold hstepAt
  cases hr : p.rawLogin? with
  | some si =>
    obtain ⟨seed, i⟩ := si
    simp only
    have hpe := rawLogin?_some hr
    subst hpe
    exact good_rawLoginGot E _ _ _ _ ⟨hp.1, hp.2.2.resolve_right id⟩
  | none =>
    simp only
    have hw := hsWaitRound_same s p.wait.1 p.wait.2.2 (hsWaitIn f)
    split
    · refine ⟨evsOk_nil, ?_, ?_⟩
      · intro p' h
        simp only [hw.2, hpos, Option.some.injEq] at h
        subst h
        exact parked_same hp hw.1
      · intro h; cases h
    · exact good_hsGot E _ _ _ (parked_same hp hw.1)

theorem fire_same (c : Cli) (sel : Sel) (inp : CInput) : Same c (fire c sel inp).1 := by
  unfold fire
  split
  · exact ⟨⟨rfl, rfl, rfl, rfl, rfl⟩, rfl, rfl⟩
  · split <;> exact ⟨⟨rfl, rfl, rfl, rfl, rfl⟩, rfl, rfl⟩
  · exact ⟨⟨rfl, rfl, rfl, rfl, rfl⟩, rfl, rfl⟩

/-- **the step lemma of the handshake** -/
theorem good_hstep (E : Env L td) (s : HState) (inp : CInput) (h : ∀ p, s.pos = some p → Parked L td s.c p) :
    Good L td (hstep s inp) := by
  unfold hstep
  split
  · rename_i hpos
    refine ⟨evsOk_nil, ?_, ?_⟩
    · intro p hp; rw [hpos] at hp; cases hp
    · intro h; cases h
  · rename_i p hpos
    exact good_hstepAt E _ p _ hpos (parked_same (h p hpos) (fire_same _ _ _))

end Iodine.CliQ
