import IodineModel.Lemmas.C02L4
/-
C02 / lazy mode, upstream — server side in terms of the invariants, part 1: the iteration that receives an expected
fragment that is NOT the last one.  The held query is answered at once (dataless, acknowledging the new fragment) and
remembered; the new query is held.
-/
namespace Iodine.C02L
open Iodine Iodine.Gen Iodine.Server Iodine.World

/-- the slot after an upstream fragment that is not the last one was stored: the new query `Q` is held -/
structure AfterMidL (P : Par) (s s' : Srv) (Q : Query) (out : List Nat) (sq o f : Nat) (pkt : List Nat) : Prop where
  stat : SStat P s'
  idle : IdleLazy (getUser s' P.u)
  qeq : (getUser s' P.u).q = Q
  expect : Expect (getUser s' P.u) out sq o f
  outp : (getUser s' P.u).outpacket = (getUser s P.u).outpacket
  oq : (getUser s' P.u).oqFilled = (getUser s P.u).oqFilled
  tun : (getUser s' P.u).tunIp = (getUser s P.u).tunIp
  now : s'.now = s.now
  pkt : ∃ y : Session, pkt = scPkt y 0 ∧ y.outpacket = (getUser s P.u).outpacket ∧ y.inpacket.seqno = (sq : Int) ∧
    y.inpacket.fragment = (f : Int) - 1
  frag : (getUser s' P.u).fragsize = (getUser s P.u).fragsize

theorem srv_recv_mid_lazy {P : Par} (hP : P.Ok) {s : Srv} (hS : SStat P s) (hi : IdleLazy (getUser s P.u)) {k sd : Nat}
    (hk : k < 36) (hB : HeldBase P (getUser s P.u).q) (hM : HeldMem P (getUser s P.u) (getUser s P.u).q k sd)
    {Q : Query} {sq fr : Nat} {dsq dfr : Int} {out : List Nat} {o m : Nat}
    (hQ : UpQ P Q ⟨sq, fr, dsq, dfr, false⟩ k ((out.drop o).take m))
    (hE : Expect (getUser s P.u) out sq o fr) (hsq : sq < 8) (hfr : fr < 16)
    (hm : o + m ≤ out.length) (h64 : out.length ≤ 65536) :
    ∃ s' evs t pkt, iteration s (.q Q) s.now = (s', evs, t) ∧
      downOfEvents evs = [.ans (getUser s P.u).q.id (getUser s P.u).q.type (getUser s P.u).q.name pkt] ∧
      tunOfSEvents evs = [] ∧ AfterMidL P s s' Q out sq (o + m) (fr + 1) pkt ∧
      HeldMem P (getUser s' P.u) Q ((k + 1) % 36) sd := by
  obtain ⟨dlen, hdl, h6, hparse, hpl⟩ := hQ.parse
  have htop := topSess_live hS
  have hu := hS.solo.lt
  -- the slot at the top of the loop
  generalize hx0 : ({ getUser s P.u with qsNew := false } : Session) = x0 at htop
  have hx0s : XStat P x0 := by subst hx0; exact ⟨hS.x.active, hS.x.auth, hS.x.enabled, hS.x.conn, hS.x.enc, hS.x.oseq, hS.x.ofrag, hS.x.iseq, hS.x.ifrag⟩
  have hx0i : IdleLazy x0 := by subst hx0; exact ⟨hi.out, hi.q, hi.q2, hi.qs, hi.lazy⟩
  have hx0H : x0.q = (getUser s P.u).q := by subst hx0; rfl
  have hx0M : HeldMem P x0 x0.q k sd := by subst hx0; exact hM.congr rfl rfl rfl rfl rfl rfl
  have hx0f : Fresh P x0 k (0 + 1) := hx0M.fresh hk
  have hx0e : Expect x0 out sq o fr := by subst hx0; exact hE
  have hx0o : x0.outpacket = (getUser s P.u).outpacket := by subst hx0; rfl
  have hx0h : x0.host = (getUser s P.u).host := by subst hx0; rfl
  have hx0q : x0.oqFilled = (getUser s P.u).oqFilled := by subst hx0; rfl
  have hx0t : x0.tunIp = (getUser s P.u).tunIp := by subst hx0; rfl
  rw [← hx0H] at hB ⊢
  obtain ⟨I, hup, hI⟩ := accept_of_expect hx0e hx0s.iseq
  have hit := iteration_data hS.solo Q s.now dlen hP.hu (by rw [hS.td]; exact hdl) h6 hQ.c0 (hQ.ty ▸ hP.tty) hQ.id
    (admitted_entry hS Q hQ.from_)
    (by rw [htop]; exact hx0f.cacheMiss Q hQ.ty hQ.c0 hQ.c4 hk)
    (by rw [htop]; exact hx0f.qmemMiss Q hQ.ty hQ.c4 hk)
    (by rw [htop]; exact Or.inr (hx0M.name_ne hP.hu hk Q hQ.c0 hQ.c4)) (by rw [htop]; exact Or.inl hx0i.qs)
    (by rw [hparse]; intro h; cases h)
  rw [htop, hparse, dataSess_lazy_mid x0 P.u Q _ _ s.now I hx0i rfl hup] at hit
  simp only at hit
  obtain ⟨e1, e2, e3, e4, e5, _⟩ := expect_stored hP (sq := sq) (f := fr) hx0s.enc _ hpl hI hm h64
  generalize hst : stored x0 I ((Q.name.take (min dlen 512)).drop 5) = st at hit e1 e2 e3 e4 e5
  have hstc : core st = core { x0 with inpacket := st.inpacket } := by
    subst hst; unfold stored dataStore; rfl
  have hstM : HeldMem P st x0.q k sd := by
    subst hst; exact hx0M.congr rfl rfl rfl rfl rfl rfl
  generalize hH : x0.q = H at hit hB hstM
  have hmemo := hstM.memo hP.hu hk (scPkt st 0) (scPkt0_len st) Q (hQ.heldData hk)
  generalize hY : (saveQ { cacheUpd (qmemUpd st H) H (scPkt st 0) with q := { H with id := 0 } } Q s.now : Session) = Y at hit
  have hYM : HeldMem P Y Q ((k + 1) % 36) sd := by
    subst hY; exact hmemo.congr rfl rfl rfl rfl rfl rfl
  have hYc : core Y = core { x0 with inpacket := st.inpacket, q := Q, lastPkt := s.now } := by
    subst hY
    have h1 := core_memo st H (scPkt st 0)
    have h2 := hstc
    unfold core at h1 h2 ⊢
    unfold saveQ
    simp only [Session.mk.injEq] at h1 h2 ⊢
    simp [h1, h2]
  have fA : Y.active = x0.active := by have := core_active hYc; exact this
  have fB : Y.authenticated = x0.authenticated := by have := core_authenticated hYc; exact this
  have fC : Y.disabled = x0.disabled := by have := core_disabled hYc; exact this
  have fD : Y.conn = x0.conn := by have := core_conn hYc; exact this
  have fE : Y.encoder = x0.encoder := by have := core_encoder hYc; exact this
  have fF : Y.outpacket = x0.outpacket := by have := core_outpacket hYc; exact this
  have fG : Y.inpacket = st.inpacket := by have := core_inpacket hYc; exact this
  have fH : Y.q = Q := by have := core_q hYc; exact this
  have fI : Y.qs = x0.qs := by have := core_qs hYc; exact this
  have fJ : Y.lazy = x0.lazy := by have := core_lazy hYc; exact this
  have fK : Y.host = x0.host := by have := core_host hYc; exact this
  have fL : Y.lastPkt = s.now := by have := core_lastPkt hYc; exact this
  have fQ : Y.oqFilled = x0.oqFilled := by have := core_oqFilled hYc; exact this
  have fT : Y.tunIp = x0.tunIp := by have := core_tunIp hYc; exact this
  -- the sweep does nothing: no query is parked
  have hsw : sweepSess Y P.u s.now = (Y, []) := by
    unfold sweepSess
    rw [if_neg (by intro hc; apply hc.2.1; rw [fI]; exact hx0i.qs)]
  rw [hsw] at hit
  dsimp only at hit
  have hg : getUser { putUser s P.u Y with now := s.now } P.u = Y := by
    rw [getUser_withNow, getUser_putUser_self _ _ _ hu]
  refine ⟨_, _, _, scPkt st 0, hit, ?_, ?_, ?_, ?_⟩
  · simp only [List.append_nil, downOfEvents_append, downOfEvents_sweep, downOfEvents_writeDns _ _ _ _ hB.from_]
  · simp only [List.append_nil, tunOfSEvents_append, tunOfSEvents_writeDns, tunOfSEvents_sweep]
  · refine ⟨?_, ?_, ?_, ?_, ?_, ?_, ?_, rfl, ?_, ?_⟩
    · refine ⟨(hS.solo.putUser Y).withNow _, hS.td, ?_, ?_, ?_⟩
      · rw [hg]
        refine ⟨fA ▸ hx0s.active, fB ▸ hx0s.auth, fC ▸ hx0s.enabled, fD ▸ hx0s.conn, fE ▸ hx0s.enc, fF ▸ hx0s.oseq, fF ▸ hx0s.ofrag, ?_, ?_⟩
        · rw [fG, e1]; omega
        · rw [fG, e2]; omega
      · rw [hg, fK, hx0h]; exact hS.host
      · rw [hg, fL]; show s.now < s.now + 60; omega
    · rw [hg]
      exact ⟨fF ▸ hx0i.out, by rw [fH]; exact hQ.id, by rw [fH]; exact hQ.id2, fI ▸ hx0i.qs, fJ ▸ hx0i.lazy⟩
    · rw [hg]; exact fH
    · rw [hg]
      right
      rw [fG]
      refine ⟨by omega, e1, by rw [e2]; omega, e3, e4, by rw [e5]; exact List.take_take .. |>.trans (by simp)⟩
    · rw [hg, fF, hx0o]
    · rw [hg, fQ, hx0q]
    · rw [hg, fT, hx0t]
    · refine ⟨st, rfl, ?_, e1, ?_⟩
      · have : st.outpacket = x0.outpacket := by have h9 := core_outpacket hstc; exact h9
        rw [this, hx0o]
      · rw [e2]; omega
    · rw [hg]
      have : Y.fragsize = x0.fragsize := by have h9 := core_fragsize hYc; exact h9
      rw [this]; subst hx0; rfl
  · rw [hg]; exact hYM

end Iodine.C02L
