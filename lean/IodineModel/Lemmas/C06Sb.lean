import IodineModel.Lemmas.C06Sa
import IodineModel.Lemmas.HsSys
/-
C06 for whole client sessions, part 2: the HANDSHAKE machine (`Client/Handshake.lean`).

One pass over all continuation functions (same skeleton as Lemmas/HsSys.lean): whatever the replies are,
* the two packet buffers `inpkt`, `outpkt` of the statics are never touched (`HQ`: they are what they were at the entry of
  `client_handshake`), so the tunnel phase starts with the buffers `client_init` left;
* `HState.inb` — the bytes of `in[4096]` of the running `handshake_*` function that the reply at hand filled — never has more than
  4096 elements (`handshake_waitdns` passes `sizeof(in)` or `sizeof(in) - 1`, the raw login `recv`s at most `sizeof(in)`);
* no event is a tun write, and a raw frame (`send_raw_udp_login`) fits `packet[4096]` of `send_raw` (`HEv`).
-/
namespace Iodine.C06L
open Iodine Iodine.Client Iodine.Gen

/-- the handshake leaves the packet buffers alone and `in[]` is never over-filled -/
def HQ (ip op : Packet) (dv : List Nat) (s : HState) : Prop :=
  s.c.inpkt = ip ∧ s.c.outpkt = op ∧ s.inb.length ≤ 4096 ∧ s.dev = dv

/-- events of the handshake: never a tun write; a raw frame fits `send_raw`'s `packet[4096]` -/
def HEvB : CEvent → Prop
  | .tunw _ => False
  | .rawtx b => b.length ≤ 4096
  | _ => True

def HEv (l : List CEvent) : Prop := ∀ e ∈ l, HEvB e

theorem hev_nil : HEv [] := by intro e h; cases h

theorem hev_of_onlyQ {l : List CEvent} (h : OnlyQ l) : HEv l := by
  intro e he
  obtain ⟨id, ty, n, rfl⟩ := h e he
  trivial

/-- postcondition of a continuation function: `HQ` for the state it ends in, and it only APPENDS harmless events -/
def HP (ip op : Packet) (dv : List Nat) (evs : List CEvent) (o : HOut) : Prop := HQ ip op dv o.1 ∧ ∃ l, o.2.1 = evs ++ l ∧ HEv l

/-- what a sender of the handshake does: packet buffers untouched, harmless events -/
def HS (c : Cli) (r : Res) : Prop := SameP c r.1 ∧ HEv r.2

variable {ip op : Packet} {dv : List Nat}

set_option hygiene false in
macro "hq" : tactic =>
  `(tactic| first
    | exact hs
    | exact ⟨hs.1, hs.2.1, hs.2.2.1, hs.2.2.2⟩
    | exact ⟨hs.1, hs.2.1, Nat.zero_le _, hs.2.2.2⟩
    | exact ⟨hs.1, hs.2.1, List.length_take_le _ _, hs.2.2.2⟩)

theorem HP.done (s : HState) (evs : List CEvent) (rv : Int) (hs : HQ ip op dv s) : HP ip op dv evs (s.done evs rv) :=
  ⟨hs, [], by simp [HState.done], hev_nil⟩

theorem HP.park (s : HState) {r : Res} (evs : List CEvent) (p : HPos) (hs : HQ ip op dv s) (h : HS s.c r) :
    HP ip op dv evs (s.park r evs p) :=
  ⟨⟨h.1.1.trans hs.1, h.1.2.trans hs.2.1, hs.2.2.1, hs.2.2.2⟩, r.2, rfl, h.2⟩

/-! ### the senders -/

theorem hs_sendQueryPlain (c : Cli) (h : List Nat) : HS c (sendQueryPlain c h).1 :=
  ⟨(sendQueryPlain_k c h).1.sameP, hev_of_onlyQ (sendQueryPlain_k c h).2.1⟩

theorem hs_sendHandshakeQuery (c : Cli) (p : List Nat) : HS c (sendHandshakeQuery c p) :=
  ⟨(sendHandshakeQuery_k c p).1.sameP, hev_of_onlyQ (sendHandshakeQuery_k c p).2.1⟩

theorem hs_hsSendPacket (c : Cli) (cmd : Nat) (d : List Nat) : HS c (hsSendPacket c cmd d) :=
  hs_sendQueryPlain _ _

theorem hs_sendRawUdpLogin (s : HState) (seed : Nat) : HS s.c (sendRawUdpLogin s seed) := by
  refine ⟨⟨rfl, rfl⟩, ?_⟩
  intro e he
  simp only [sendRawUdpLogin, List.mem_singleton] at he
  subst he
  exact evB_sendRaw _ _ _ _

/-! ### the continuation functions, bottom-up -/

theorem hp_hsEnd (s : HState) (evs : List CEvent) (hs : HQ ip op dv s) : HP ip op dv evs (hsEnd s evs) := HP.done _ _ _ (by hq)

theorem hp_setFragHead (s : HState) (evs : List CEvent) (f : Int) (i : Nat) (hs : HQ ip op dv s) : HP ip op dv evs (setFragHead s evs f i) := by
  unfold setFragHead
  split
  · exact HP.park _ _ _ (by hq) (by unfold sendSetFragsize; exact hs_hsSendPacket _ _ _)
  · exact hp_hsEnd _ _ (by hq)

theorem hp_setFragGot (s : HState) (f : Int) (i : Nat) (read : Int) (hs : HQ ip op dv s) : HP ip op dv [] (setFragGot s f i read) := by
  unfold setFragGot
  split
  · exact hp_hsEnd _ _ (by hq)
  · exact hp_setFragHead _ _ _ _ (by hq)

theorem hp_setFragEnter (s : HState) (evs : List CEvent) (f : Int) (hs : HQ ip op dv s) : HP ip op dv evs (setFragEnter s evs f) :=
  hp_setFragHead _ _ _ _ (by hq)

theorem hp_fragFinish (s : HState) (evs : List CEvent) (m : Int) (hs : HQ ip op dv s) : HP ip op dv evs (fragFinish s evs m) := by
  unfold fragFinish
  simp only
  repeat' split
  all_goals first
    | exact hp_setFragEnter _ _ _ (by hq)
    | exact HP.done _ _ _ (by hq)

theorem hs_sendFragsizeProbe (c : Cli) (f : Nat) : HS c (sendFragsizeProbe c f) := by
  unfold sendFragsizeProbe; exact hs_sendQueryPlain _ _

theorem hp_fragHead (s : HState) (evs : List CEvent) (pr rg : Nat) (m : Int) (i : Nat) (hs : HQ ip op dv s) :
    HP ip op dv evs (fragHead s evs pr rg m i) := by
  unfold fragHead
  simp only
  repeat' split
  all_goals first
    | exact HP.park _ _ _ (by hq) (hs_sendFragsizeProbe _ _)
    | exact hp_fragFinish _ _ _ (by hq)

theorem hp_fragGot (s : HState) (pr rg : Nat) (m : Int) (i : Nat) (read : Int) (hs : HQ ip op dv s) : HP ip op dv [] (fragGot s pr rg m i read) := by
  unfold fragGot
  simp only
  repeat' split
  all_goals exact hp_fragHead _ _ _ _ _ _ (by hq)

theorem hp_fragEnter (s : HState) (evs : List CEvent) (hs : HQ ip op dv s) : HP ip op dv evs (fragEnter s evs) := by
  unfold fragEnter
  simp only
  split
  · exact hp_fragHead _ _ _ _ _ _ (by hq)
  · exact hp_fragFinish _ _ _ (by hq)

theorem hp_afterLazy (s : HState) (evs : List CEvent) (hs : HQ ip op dv s) : HP ip op dv evs (afterLazy s evs) := by
  unfold afterLazy
  repeat' split
  all_goals first
    | exact hp_fragEnter _ _ (by hq)
    | exact hp_setFragEnter _ _ _ (by hq)
    | exact HP.done _ _ _ (by hq)

theorem hp_lazyHead (s : HState) (evs : List CEvent) (i : Nat) (hs : HQ ip op dv s) : HP ip op dv evs (lazyHead s evs i) := by
  unfold lazyHead
  repeat' split
  all_goals first
    | exact HP.park _ _ _ (by hq) (by unfold sendLazySwitch; exact hs_sendHandshakeQuery _ _)
    | exact hp_afterLazy _ _ (by hq)

theorem hp_lazyGot (s : HState) (i : Nat) (read : Int) (hs : HQ ip op dv s) : HP ip op dv [] (lazyGot s i read) := by
  unfold lazyGot
  repeat' split
  all_goals first
    | exact hp_afterLazy _ _ (by hq)
    | exact hp_lazyHead _ _ _ (by hq)

theorem hp_afterSwitchDown (s : HState) (evs : List CEvent) (hs : HQ ip op dv s) : HP ip op dv evs (afterSwitchDown s evs) := by
  unfold afterSwitchDown
  repeat' split
  all_goals first
    | exact hp_lazyHead _ _ _ (by hq)
    | exact hp_afterLazy _ _ (by hq)
    | exact HP.done _ _ _ (by hq)

theorem hp_switchDownHead (s : HState) (evs : List CEvent) (i : Nat) (hs : HQ ip op dv s) : HP ip op dv evs (switchDownHead s evs i) := by
  unfold switchDownHead
  split
  · exact HP.park _ _ _ (by hq) (hs_sendHandshakeQuery _ _)
  · exact hp_afterSwitchDown _ _ (by hq)

theorem hp_switchDownGot (s : HState) (i : Nat) (read : Int) (hs : HQ ip op dv s) : HP ip op dv [] (switchDownGot s i read) := by
  unfold switchDownGot
  split
  · exact hp_afterSwitchDown _ _ (by hq)
  · exact hp_switchDownHead _ _ _ (by hq)

theorem hp_afterDownenc (s : HState) (evs : List CEvent) (hs : HQ ip op dv s) : HP ip op dv evs (afterDownenc s evs) := by
  unfold afterDownenc
  repeat' split
  all_goals first
    | exact hp_switchDownHead _ _ _ (by hq)
    | exact hp_afterSwitchDown _ _ (by hq)
    | exact HP.done _ _ _ (by hq)

theorem hp_downencRet (s : HState) (evs : List CEvent) (d : Nat) (hs : HQ ip op dv s) : HP ip op dv evs (downencRet s evs d) :=
  hp_afterDownenc _ _ (by hq)

theorem hp_downencFinish (s : HState) (evs : List CEvent) (a b c : Bool) (hs : HQ ip op dv s) : HP ip op dv evs (downencFinish s evs a b c) := by
  unfold downencFinish
  repeat' split
  all_goals exact hp_downencRet _ _ _ (by hq)

theorem hs_sendDownenctest (c : Cli) (codec : Nat) : HS c (sendDownenctest c codec) := by
  unfold sendDownenctest; exact hs_sendHandshakeQuery _ _

theorem hp_downencTestRet (s : HState) (evs : List CEvent) (codec : Nat) (b64 ok : Bool) (hs : HQ ip op dv s) :
    HP ip op dv evs (downencTestRet s evs codec b64 ok) := by
  unfold downencTestRet
  simp only
  repeat' split
  all_goals first
    | exact hp_downencFinish _ _ _ _ _ (by hq)
    | exact hp_downencRet _ _ _ (by hq)
    | exact HP.park _ _ _ (by hq) (hs_sendDownenctest _ _)

theorem hp_downencTestHead (s : HState) (evs : List CEvent) (codec : Nat) (b64 : Bool) (i : Nat) (hs : HQ ip op dv s) :
    HP ip op dv evs (downencTestHead s evs codec b64 i) := by
  unfold downencTestHead
  split
  · exact HP.park _ _ _ (by hq) (hs_sendDownenctest _ _)
  · exact hp_downencTestRet _ _ _ _ _ (by hq)

theorem hp_downencTestGot (s : HState) (codec : Nat) (b64 : Bool) (i : Nat) (read : Int) (hs : HQ ip op dv s) :
    HP ip op dv [] (downencTestGot s codec b64 i read) := by
  unfold downencTestGot
  split
  · exact hp_downencTestRet _ _ _ _ _ (by hq)
  · exact hp_downencTestHead _ _ _ _ _ (by hq)

theorem hp_afterSwitchCodec (s : HState) (evs : List CEvent) (hs : HQ ip op dv s) : HP ip op dv evs (afterSwitchCodec s evs) := by
  unfold afterSwitchCodec
  repeat' split
  all_goals first
    | exact hp_downencRet _ _ _ (by hq)
    | exact hp_downencTestHead _ _ _ _ _ (by hq)
    | exact hp_afterDownenc _ _ (by hq)
    | exact HP.done _ _ _ (by hq)

theorem hp_switchCodecHead (s : HState) (evs : List CEvent) (bits i : Nat) (hs : HQ ip op dv s) : HP ip op dv evs (switchCodecHead s evs bits i) := by
  unfold switchCodecHead
  split
  · exact HP.park _ _ _ (by hq) (hs_sendHandshakeQuery _ _)
  · exact hp_afterSwitchCodec _ _ (by hq)

theorem hp_switchCodecGot (s : HState) (bits i : Nat) (read : Int) (hs : HQ ip op dv s) : HP ip op dv [] (switchCodecGot s bits i read) := by
  unfold switchCodecGot
  repeat' split
  all_goals first
    | exact hp_afterSwitchCodec _ _ (by hq)
    | exact hp_switchCodecHead _ _ _ _ (by hq)

theorem hp_upencRet (s : HState) (evs : List CEvent) (u : Nat) (hs : HQ ip op dv s) : HP ip op dv evs (upencRet s evs u) := by
  unfold upencRet
  repeat' split
  all_goals first
    | exact hp_switchCodecHead _ _ _ _ (by hq)
    | exact hp_afterSwitchCodec _ _ (by hq)
    | exact HP.done _ _ _ (by hq)

theorem hs_sendUpenctest (c : Cli) (p : List Nat) : HS c (sendUpenctest c p) := by
  unfold sendUpenctest; exact hs_sendQueryPlain _ _

theorem hp_upencTestRet (s : HState) (evs : List CEvent) (p : Nat) (res : Int) (hs : HQ ip op dv s) : HP ip op dv evs (upencTestRet s evs p res) := by
  unfold upencTestRet
  simp only
  repeat' split
  all_goals first
    | exact hp_upencRet _ _ _ (by hq)
    | exact HP.park _ _ _ (by hq) (hs_sendUpenctest _ _)

theorem hp_upencTestHead (s : HState) (evs : List CEvent) (p i : Nat) (hs : HQ ip op dv s) : HP ip op dv evs (upencTestHead s evs p i) := by
  unfold upencTestHead
  split
  · exact HP.park _ _ _ (by hq) (hs_sendUpenctest _ _)
  · exact hp_upencTestRet _ _ _ _ (by hq)

theorem hp_upencTestGot (s : HState) (p i : Nat) (read : Int) (hs : HQ ip op dv s) : HP ip op dv [] (upencTestGot s p i read) := by
  unfold upencTestGot
  simp only
  repeat' split
  all_goals first
    | exact hp_upencTestRet _ _ _ _ (by hq)
    | exact hp_upencTestHead _ _ _ _ (by hq)

theorem hp_ednsRet (s : HState) (evs : List CEvent) (ok : Bool) (hs : HQ ip op dv s) : HP ip op dv evs (ednsRet s evs ok) := by
  unfold ednsRet
  repeat' split
  all_goals first
    | exact hp_upencTestHead _ _ _ _ (by hq)
    | exact HP.done _ _ _ (by hq)

theorem hp_ednsHead (s : HState) (evs : List CEvent) (i : Nat) (hs : HQ ip op dv s) : HP ip op dv evs (ednsHead s evs i) := by
  unfold ednsHead
  split
  · exact HP.park _ _ _ (by hq) (hs_sendDownenctest _ _)
  · exact hp_ednsRet _ _ _ (by hq)

theorem hp_ednsGot (s : HState) (i : Nat) (read : Int) (hs : HQ ip op dv s) : HP ip op dv [] (ednsGot s i read) := by
  unfold ednsGot
  split
  · exact hp_ednsRet _ _ _ (by hq)
  · exact hp_ednsHead _ _ _ (by hq)

theorem hp_dnsBranch (s : HState) (evs : List CEvent) (hs : HQ ip op dv s) : HP ip op dv evs (dnsBranch s evs) := hp_ednsHead _ _ _ (by hq)

theorem hp_rawRet (s : HState) (evs : List CEvent) (ok : Bool) (hs : HQ ip op dv s) : HP ip op dv evs (rawRet s evs ok) := by
  unfold rawRet
  split
  · exact HP.done _ _ _ (by hq)
  · exact hp_dnsBranch _ _ (by hq)

theorem hp_rawLoginHead (s : HState) (evs : List CEvent) (seed i : Nat) (hs : HQ ip op dv s) : HP ip op dv evs (rawLoginHead s evs seed i) := by
  unfold rawLoginHead
  split
  · exact HP.park _ _ _ (by hq) (hs_sendRawUdpLogin _ _)
  · exact hp_rawRet _ _ _ (by hq)

theorem hp_rawLoginGot (s : HState) (seed i : Nat) (d : Option (List Nat)) (hs : HQ ip op dv s) : HP ip op dv [] (rawLoginGot s seed i d) := by
  unfold rawLoginGot
  split
  · exact hp_rawLoginHead _ _ _ _ (by hq)
  · simp only
    split
    · exact hp_rawRet _ _ _ (by hq)
    · exact hp_rawLoginHead _ _ _ _ (by hq)

theorem hp_rawIpDone (s : HState) (evs : List CEvent) (seed : Nat) (g : Bool) (hs : HQ ip op dv s) : HP ip op dv evs (rawIpDone s evs seed g) := by
  unfold rawIpDone
  repeat' split
  all_goals first
    | exact hp_rawRet _ _ _ (by hq)
    | exact hp_rawLoginHead _ _ _ _ (by hq)

theorem hp_rawIpHead (s : HState) (evs : List CEvent) (seed i : Nat) (hs : HQ ip op dv s) : HP ip op dv evs (rawIpHead s evs seed i) := by
  unfold rawIpHead
  split
  · exact HP.park _ _ _ (by hq) (hs_sendHandshakeQuery _ _)
  · exact hp_rawIpDone _ _ _ _ (by hq)

theorem hp_rawIpGot (s : HState) (seed i : Nat) (read : Int) (hs : HQ ip op dv s) : HP ip op dv [] (rawIpGot s seed i read) := by
  unfold rawIpGot
  split
  · exact hp_rawIpDone _ _ _ _ (by hq)
  · exact hp_rawIpHead _ _ _ _ (by hq)

theorem hp_afterLogin (s : HState) (evs : List CEvent) (seed : Nat) (hs : HQ ip op dv s) : HP ip op dv evs (afterLogin s evs seed) := by
  unfold afterLogin
  split
  · exact hp_rawIpHead _ _ _ _ (by hq)
  · exact hp_dnsBranch _ _ (by hq)

theorem hp_loginHead (s : HState) (evs : List CEvent) (seed i : Nat) (hs : HQ ip op dv s) : HP ip op dv evs (loginHead s evs seed i) := by
  unfold loginHead
  split
  · exact HP.park _ _ _ (by hq) (by unfold sendLogin; exact hs_hsSendPacket _ _ _)
  · exact HP.done _ _ _ (by hq)

/-- the one place where `system()` is called: the events of the loop body of `handshake_login` are exactly the commands
`Shell.loginStep` builds from the reply, followed by non-`sys` events -/
theorem hp_loginGot (s : HState) (seed i : Nat) (read : Int) (hs : HQ ip op dv s) :
    HP ip op dv ((loginCommands s read).map CEvent.sys) (loginGot s seed i read) := by
  unfold loginGot loginCommands
  split
  · simp only
    split
    · exact hp_afterLogin _ _ _ (by hq)
    · exact HP.done _ _ _ (by hq)
    · exact HP.done _ _ _ (by hq)
    · exact ⟨by hq, [], by simp, hev_nil⟩
    · exact hp_loginHead _ _ _ _ (by hq)
  · exact hp_loginHead _ _ _ _ (by hq)

theorem hp_versionHead (s : HState) (evs : List CEvent) (i : Nat) (hs : HQ ip op dv s) : HP ip op dv evs (versionHead s evs i) := by
  unfold versionHead
  split
  · exact HP.park _ _ _ (by hq) (by unfold sendVersion; exact hs_hsSendPacket _ _ _)
  · exact HP.done _ _ _ (by hq)

theorem hp_versionGot (s : HState) (i : Nat) (read : Int) (hs : HQ ip op dv s) : HP ip op dv [] (versionGot s i read) := by
  unfold versionGot
  split
  · simp only
    split
    · exact hp_loginHead _ _ _ _ (by hq)
    · split
      · exact HP.done _ _ _ (by hq)
      · split
        · exact HP.done _ _ _ (by hq)
        · exact hp_versionHead _ _ _ (by hq)
  · exact hp_versionHead _ _ _ (by hq)

theorem hp_afterQtype (s : HState) (evs : List CEvent) (hs : HQ ip op dv s) : HP ip op dv evs (afterQtype s evs) := hp_versionHead _ _ _ (by hq)

theorem hp_qtypeFinish (s : HState) (evs : List CEvent) (h : Nat) (hs : HQ ip op dv s) : HP ip op dv evs (qtypeFinish s evs h) := by
  unfold qtypeFinish
  simp only
  repeat' split
  all_goals first
    | exact hp_afterQtype _ _ (by hq)
    | exact HP.done _ _ _ (by hq)

theorem hp_qtypeTest (s : HState) (evs : List CEvent) (t q h : Nat) (hs : HQ ip op dv s) : HP ip op dv evs (qtypeTest s evs t q h) :=
  HP.park _ _ _ (by hq) (hs_sendDownenctest _ _)

theorem hp_qtypeOuterHead (s : HState) (evs : List CEvent) (t h : Nat) (hs : HQ ip op dv s) : HP ip op dv evs (qtypeOuterHead s evs t h) := by
  unfold qtypeOuterHead
  repeat' split
  all_goals first
    | exact hp_qtypeTest _ _ _ _ _ (by hq)
    | exact hp_qtypeFinish _ _ _ (by hq)

theorem hp_qtypeAfterInner (s : HState) (evs : List CEvent) (t h : Nat) (hs : HQ ip op dv s) : HP ip op dv evs (qtypeAfterInner s evs t h) := by
  unfold qtypeAfterInner
  split
  · exact hp_qtypeFinish _ _ _ (by hq)
  · exact hp_qtypeOuterHead _ _ _ _ (by hq)

theorem hp_qtypeInnerHead (s : HState) (evs : List CEvent) (t q h : Nat) (hs : HQ ip op dv s) : HP ip op dv evs (qtypeInnerHead s evs t q h) := by
  unfold qtypeInnerHead
  simp only
  repeat' split
  all_goals first
    | exact hp_qtypeAfterInner _ _ _ _ (by hq)
    | exact hp_qtypeTest _ _ _ _ _ (by hq)

theorem hp_qtypeGot (s : HState) (t q h : Nat) (read : Int) (hs : HQ ip op dv s) : HP ip op dv [] (qtypeGot s t q h read) := by
  unfold qtypeGot
  split
  · exact hp_qtypeAfterInner _ _ _ _ (by hq)
  · exact hp_qtypeInnerHead _ _ _ _ _ (by hq)

theorem hp_hsStart (c : Cli) (args : HsArgs) (pw dev : List Nat) :
    HP c.inpkt c.outpkt dev [] (hsStart c args pw dev) := by
  have hs : HQ c.inpkt c.outpkt dev
      ({ c := { c with edns0 := false }, pos := none, inb := [], args := args, pw := pw, dev := dev } : HState) :=
    ⟨rfl, rfl, Nat.zero_le _, rfl⟩
  unfold hsStart
  simp only
  split
  · exact hp_qtypeOuterHead _ _ _ _ (by hq)
  · exact hp_afterQtype _ _ (by hq)

/-! ### the step -/

theorem hev_append {a b : List CEvent} (ha : HEv a) (hb : HEv b) : HEv (a ++ b) := by
  intro e h
  rcases List.mem_append.mp h with h | h
  · exact ha e h
  · exact hb e h

theorem hev_sys_map (cmds : List (List Nat)) : HEv (cmds.map CEvent.sys) := by
  intro e he
  obtain ⟨c, _, rfl⟩ := List.mem_map.mp he
  trivial

theorem HP.out {evs : List CEvent} {o : HOut} (h : HP ip op dv evs o) (he : HEv evs) : HQ ip op dv o.1 ∧ HEv o.2.1 := by
  obtain ⟨hq, l, h1, h2⟩ := h
  exact ⟨hq, by rw [h1]; exact hev_append he h2⟩

/-- `buflen` of every `handshake_waitdns` call is at most `sizeof(in)` -/
theorem wait_buflen (p : HPos) : p.wait.2.2 ≤ 4096 := by
  cases p <;> simp [HPos.wait]

theorem hq_hsWaitRound (s : HState) (c1 bl : Nat) (w : WaitIn) (hbl : bl ≤ 4096) (hs : HQ ip op dv s) :
    HQ ip op dv (hsWaitRound s c1 bl w).1 := by
  unfold hsWaitRound
  split
  · exact ⟨hs.1, hs.2.1, Nat.zero_le _, hs.2.2.2⟩
  · rename_i rq
    have hl : (rq.buf.take (min rq.rv.toNat bl)).length ≤ 4096 := by
      rw [List.length_take]; omega
    simp only
    repeat' split
    all_goals exact ⟨hs.1, hs.2.1, hl, hs.2.2.2⟩

theorem hsGot_hq (s : HState) (p : HPos) (read : Int) (hs : HQ ip op dv s) :
    HQ ip op dv (hsGot s p read).1 ∧ HEv (hsGot s p read).2.1 := by
  cases p with
  | login seed i => exact (hp_loginGot s seed i read hs).out (hev_sys_map _)
  | qtype t q h => exact (hp_qtypeGot s t q h read hs).out hev_nil
  | version i => exact (hp_versionGot s i read hs).out hev_nil
  | rawIp seed i => exact (hp_rawIpGot s seed i read hs).out hev_nil
  | rawLogin seed i => exact (hp_rawLoginGot s seed i none hs).out hev_nil
  | edns i => exact (hp_ednsGot s i read hs).out hev_nil
  | upenc p i => exact (hp_upencTestGot s p i read hs).out hev_nil
  | switchCodec b i => exact (hp_switchCodecGot s b i read hs).out hev_nil
  | downenc cd b i => exact (hp_downencTestGot s cd b i read hs).out hev_nil
  | switchDown i => exact (hp_switchDownGot s i read hs).out hev_nil
  | lazy i => exact (hp_lazyGot s i read hs).out hev_nil
  | frag pr r m i => exact (hp_fragGot s pr r m i read hs).out hev_nil
  | setFrag f i => exact (hp_setFragGot s f i read hs).out hev_nil

/-- **the step lemma of the handshake machine**: for EVERY input, `HQ` is kept and the events are harmless -/
theorem hstep_hq (s : HState) (inp : CInput) (hs : HQ ip op dv s) : HQ ip op dv (hstep s inp).1 ∧ HEv (hstep s inp).2.1 := by
  unfold hstep
  split
  · exact ⟨hs, hev_nil⟩
  · rename_i p hp
    simp only
    have hf := sameP_fire s.c p.sel inp
    have hs1 : HQ ip op dv { s with c := (fire s.c p.sel inp).1 } := ⟨hf.1.trans hs.1, hf.2.trans hs.2.1, hs.2.2.1, hs.2.2.2⟩
    unfold hstepAt
    split
    · rename_i seed i _
      exact (hp_rawLoginGot _ seed i _ hs1).out hev_nil
    · simp only
      have hs2 := hq_hsWaitRound _ p.wait.1 p.wait.2.2 (hsWaitIn (fire s.c p.sel inp).2) (wait_buflen p) hs1
      split
      · exact ⟨hs2, hev_nil⟩
      · exact hsGot_hq _ _ _ hs2

theorem hsStart_hq (c : Cli) (args : HsArgs) (pw dev : List Nat) :
    HQ c.inpkt c.outpkt dev (hsStart c args pw dev).1 ∧ HEv (hsStart c args pw dev).2.1 :=
  (hp_hsStart c args pw dev).out hev_nil

/-- **unfitting replies are ignored by `handshake_waitdns`**: a reply whose id is not the id of the latest query, or whose question
does not start with the expected character (either case), only fills `in[]`; nothing else changes, nothing is sent, the thread
waits in the same `select` again -/
theorem hstep_unmatched (s : HState) (p : HPos) (hp : s.pos = some p) (hr : p.rawLogin? = none) (q : Rq)
    (h : q.id ≠ s.c.chunkid ∨ (q.name0 ≠ p.wait.1 ∧ q.name0 ≠ p.wait.1 - 32)) :
    hstep s (.rq q) = ({ s with inb := q.buf.take (min q.rv.toNat p.wait.2.2) }, [], .sel p.sel) := by
  unfold hstep
  rw [hp]
  simp only [fire]
  unfold hstepAt
  rw [hr]
  simp only [hsWaitIn, hsWaitRound]
  rw [if_pos h]

end Iodine.C06L
