import IodineModel.Lemmas.C05N4
/-
Helper lemmas for C05 "established sessions continue", part 5: what the model-level predicates `fwdTo` and
`rawLoginFor` imply in terms the specification can talk about (the destination address of the completed packet is the
tunnel address of `u`; the frame carries `u`'s login hash).
-/
namespace Iodine.C05N
open Iodine Iodine.Server Iodine.Gen Iodine.C04L

theorem cmdOf_data (c : Nat) (h : cmdOf c = some .data) : isHexDigit c = true := by
  by_cases hx : isHexDigit c = true
  · exact hx
  · exfalso
    unfold cmdOf at h
    rw [if_neg hx] at h
    repeat' (split at h)
    all_goals cases h

theorem erIn_tunIp {x y : Session} (h : erIn x = erIn y) : x.tunIp = y.tunIp := by
  have := congrArg Session.tunIp h; exact this

/-- a slot `find_user_by_ip` returns has the address looked for -/
theorem findUserByIp_tunIp (s : Srv) (A v : Nat) (h : findUserByIp s A = some v) : (getUser s v).tunIp = A :=
  ((findUserByIp_some_iff s A v).1 h).2.1.2.2.2.2

/-- what a passed access check means (this is `C04.Accepted`, unfolded) -/
theorem accepted_of_check (s : Srv) (q : Query) (uid : Int) (w : Nat) (hw : uid.toNat = w)
    (h : checkUserAndIp s uid q = false) :
    w < s.cfg.createdUsers ∧ (getUser s w).active = true ∧ (getUser s w).disabled = false ∧
    ¬ (getUser s w).lastPkt + 60 < s.now ∧
    (s.cfg.checkIp = true → q.from_.fam = (getUser s w).host.fam ∧ q.from_.ip = (getUser s w).host.ip) := by
  obtain ⟨c0, c1, c2, c3, c4, c5⟩ := checkUserAndIp_false s uid q h
  rw [hw] at c2 c3 c4 c5
  exact ⟨by omega, c2, c3, c4, c5⟩

/-- a DNS data request that hands a packet to `u`: it is an accepted data request of some session `w`, it completes
`w`'s upstream packet, and the packet's destination is `u`'s tunnel address -/
theorem fwdTo_q_elim {s : Srv} {q : Query} {u : Nat} (h : fwdTo s (.q q) u) :
    ∃ (dlen w : Nat) (out : List Nat), Common.queryDatalen q.name s.cfg.topdomain = some dlen ∧
      isHexDigit ((inbOf q dlen).getD 0 0) = true ∧ hexCode ((inbOf q dlen).getD 0 0) = (w : Int) ∧
      (dataPre s w (inbOf q dlen)).2 = (true, true) ∧
      fullPacketOut (dataPre s w (inbOf q dlen)).1 w = some out ∧ ipDst out = (getUser s u).tunIp ∧
      (w < s.cfg.createdUsers ∧ (getUser s w).active = true ∧ (getUser s w).disabled = false ∧
        ¬ (getUser s w).lastPkt + 60 < s.now ∧
        (s.cfg.checkIp = true → q.from_.fam = (getUser s w).host.fam ∧ q.from_.ip = (getUser s w).host.ip)) := by
  obtain ⟨dlen, hd, _, hc, hrej, ⟨hp1, hp2⟩, out, hout, hfind⟩ := h
  have hpos := (checkUserAndIp_false s _ q (rejected_false s q _ .data hrej).1).1
  have hcast : (((uidOf q dlen .data).toNat : Nat) : Int) = hexCode ((inbOf q dlen).getD 0 0) := by
    have : uidOf q dlen .data = hexCode ((inbOf q dlen).getD 0 0) := rfl
    rw [← this]; omega
  refine ⟨dlen, (uidOf q dlen .data).toNat, out, hd, cmdOf_data _ hc, hcast.symm, ?_, hout, ?_,
    accepted_of_check s q _ _ rfl (rejected_false s q _ .data hrej).1⟩
  · exact Prod.ext hp1 hp2
  · have e1 := findUserByIp_tunIp _ _ _ hfind
    rw [← e1]
    exact erIn_tunIp ((frame_dataPre s _ (inbOf q dlen)).rel u)

theorem fullPacketOut_elim (s : Srv) (w : Nat) (out : List Nat) (h : fullPacketOut s w = some out) :
    uncompress ((getUser s w).inpacket.data.take (getUser s w).inpacket.len) 65536 = some out ∧ 24 ≤ out.length := by
  unfold fullPacketOut at h
  dsimp only at h
  generalize uncompress (List.take (getUser s w).inpacket.len (getUser s w).inpacket.data) 65536 = r at h ⊢
  cases r with
  | none => cases h
  | some o =>
    dsimp only at h
    split at h
    · next h2 => cases h; exact ⟨rfl, h2⟩
    · cases h

/-- a raw data frame that hands a packet to `u`: its payload decompresses to an IP frame whose destination is `u`'s
tunnel address -/
theorem fwdTo_raw_elim {s : Srv} {src : Addr} {bytes : List Nat} {u : Nat} (h : fwdTo s (.rawf src bytes) u) :
    (bytes.take 65536).take 3 = [16, 209, 158] ∧ (bytes.take 65536).getD 3 0 &&& 240 = 32 ∧
    (∃ out, uncompress ((bytes.take 65536).drop 4) 65536 = some out ∧ 24 ≤ out.length ∧
      ipDst out = (getUser s u).tunIp) ∧
    (((bytes.take 65536).getD 3 0 &&& 15) < s.cfg.createdUsers ∧
      (getUser s ((bytes.take 65536).getD 3 0 &&& 15)).active = true ∧
      (getUser s ((bytes.take 65536).getD 3 0 &&& 15)).disabled = false ∧
      ¬ (getUser s ((bytes.take 65536).getD 3 0 &&& 15)).lastPkt + 60 < s.now ∧
      (s.cfg.checkIp = true → src.fam = (getUser s ((bytes.take 65536).getD 3 0 &&& 15)).host.fam ∧
        src.ip = (getUser s ((bytes.take 65536).getD 3 0 &&& 15)).host.ip)) := by
  obtain ⟨_, h2, h3, hchk, out, hout, hfind⟩ := h
  refine ⟨h2, h3, ⟨out, ?_⟩,
    accepted_of_check s (rawQuery src) _ _ (by simp; rfl) (checkAuth_false s _ _ hchk).1⟩
  generalize hw : (List.take 65536 bytes).getD 3 0 &&& RAW_HDR_USR_MASK = w at hout hfind
  generalize hbody : List.drop RAW_HDR_LEN (List.take 65536 bytes) = body at hout hfind
  have hbody' : List.drop 4 (List.take 65536 bytes) = body := hbody
  rw [hbody']
  have e1 := findUserByIp_tunIp _ _ _ hfind
  have e2 : (getUser (setUser s w (rawStore s (rawQuery src) body)) u).tunIp = (getUser s u).tunIp := by
    rw [getUser_setUser]; split
    · next hc => rw [hc.1]; rfl
    · rfl
  obtain ⟨k1, k2⟩ := fullPacketOut_elim _ _ _ hout
  refine ⟨?_, k2, by rw [← e1, e2]⟩
  by_cases hl : w < s.users.length
  · rw [getUser_setUser_self _ _ _ hl] at k1
    simpa [rawStore] using k1
  · rw [getUser_setUser_oob _ _ _ hl] at k1
    have hz : getUser s w = Session.zero 0 := by
      unfold getUser; simp [List.getD_eq_getElem?_getD, List.getElem?_eq_none (Nat.le_of_not_lt hl)]
    rw [hz] at k1
    simp [Session.zero, Packet.zero, uncompress] at k1

/-- an accepted raw login for `u` carries the hash of the password and `seed_u + 1` -/
theorem rawLoginFor_elim {s : Srv} {src : Addr} {bytes : List Nat} {u : Nat} (h : rawLoginFor s (.rawf src bytes) u) :
    (bytes.take 65536).take 3 = [16, 209, 158] ∧ (bytes.take 65536).getD 3 0 &&& 240 = 16 ∧
    (bytes.take 65536).getD 3 0 &&& 15 = u ∧ 20 ≤ (bytes.take 65536).length ∧
    ((bytes.take 65536).drop 4).take 16 = Login.loginCalcC s.cfg.password ((getUser s u).seed + 1) := by
  obtain ⟨_, h2, h3, h4, h5, _, _, _, _, _, h11⟩ := h
  refine ⟨h2, h3, h4, ?_, h11⟩
  have : (List.drop RAW_HDR_LEN (List.take 65536 bytes)).length = (List.take 65536 bytes).length - 4 := by
    simp [RAW_HDR_LEN]
  omega

end Iodine.C05N
