import IodineModel.Client.ReadDns
import IodineModel.Lemmas.WireRt3
/-
The client's MX/SRV loop (`mxParts`, client.c `read_dns_withq`) run over the buffer the decoder's output
loop (`mxOutPure`) produced from a list of host names, each of which carries a chunk of the payload.
Abstract in the codec: `Carries name chunk` is what `dns_namedec` is required to do with a name and with cuts
of it (established for the names of `write_dns_nameenc` in Lemmas/Downstream.lean).
-/
namespace Iodine.Downstream
open Iodine Iodine.Wire Iodine.Client.ReadDns

/-- `dns_namedec` on the memory holding `name` (or its first `l` characters) and a NUL -/
structure Carries (name chunk : List Nat) : Prop where
  len_ge : 4 ≤ name.length
  chunk_ne : chunk ≠ []
  nonul : ∀ c ∈ name, c ≠ 0
  /-- a cut of the name, decoded with any length up to one beyond the cut: a prefix of the chunk -/
  cut : ∀ (N l t : Nat) (rest : List Nat), 1 ≤ l → l ≤ name.length → t ≤ l + 1 →
    dnsNamedec N (name.take l ++ 0 :: rest) t <+: chunk
  /-- the whole name, with its own length or one more: the chunk -/
  exact : ∀ (N t : Nat) (rest : List Nat), (t = name.length ∨ t = name.length + 1) → chunk.length ≤ N →
    dnsNamedec N (name ++ 0 :: rest) t = chunk
  /-- the name without its last character, decoded with one more than what is left: still the chunk -/
  exact1 : ∀ (N : Nat) (rest : List Nat), chunk.length ≤ N →
    dnsNamedec N (name.take (name.length - 1) ++ 0 :: rest) name.length = chunk
  /-- two or more characters lost: strictly less than the chunk -/
  strict : ∀ (N l : Nat) (rest : List Nat), 1 ≤ l → l + 2 ≤ name.length →
    (dnsNamedec N (name.take l ++ 0 :: rest) (l + 1)).length < chunk.length

/-- all names but the last have length `L`, the last at most `L` -/
def Uniform (L : Nat) : List (List Nat × List Nat) → Prop
  | [] => True
  | it :: rest => it.1.length ≤ L ∧ (rest ≠ [] → it.1.length = L) ∧ Uniform L rest

theorem mxParts_zero_len (first buftotal : Nat) (mem : List Nat) (fuel bufoffset : Nat) (out : List Nat)
    (h : buftotal ≤ bufoffset) : mxParts first buftotal mem fuel bufoffset out = out := by
  cases fuel with
  | zero => rfl
  | succ f =>
    simp only [mxParts]
    rw [if_pos (Or.inl (by omega))]

/-- bytes the names take in the buffer, each with its NUL -/
def joinedLen (names : List (List Nat)) : Nat := (names.map (fun n => n.length + 1)).sum

theorem joinedLen_cons (n : List Nat) (r : List (List Nat)) : joinedLen (n :: r) = n.length + 1 + joinedLen r := by
  simp [joinedLen]

theorem joinedLen_pos (items : List (List Nat × List Nat)) (h : ∀ it ∈ items, Carries it.1 it.2) (hne : items ≠ []) :
    5 ≤ joinedLen (items.map (·.1)) := by
  cases items with
  | nil => exact absurd rfl hne
  | cons it r =>
    have := (h it (by simp)).len_ge
    simp only [List.map_cons, joinedLen_cons]
    omega

theorem flatten_pos (items : List (List Nat × List Nat)) (h : ∀ it ∈ items, Carries it.1 it.2) (hne : items ≠ []) :
    0 < (items.map (·.2)).flatten.length := by
  cases items with
  | nil => exact absurd rfl hne
  | cons it r =>
    have := List.length_pos_iff.mpr (h it (by simp)).chunk_ne
    simp only [List.map_cons, List.flatten_cons, List.length_append]
    omega

/-- what the loop extracts, as a function of the names and their chunks: the chunks of the names that arrive whole
(and have the common length), then whatever the cut last name decodes to.  `o` = bytes of the buffer in front of
the names, `a` = bytes extracted so far. -/
def mxExpected (L B : Nat) : List (List Nat × List Nat) → (o a : Nat) → List Nat
  | [], _, _ => []
  | it :: rest, o, a =>
    if o + 2 ≥ B then []
    else if min it.1.length (B - (o + 2)) = L then
      it.2 ++ mxExpected L B rest (o + min it.1.length (B - (o + 2)) + 1) (a + it.2.length)
    else dnsNamedec (dataSize - a) (it.1.take (min it.1.length (B - (o + 2))) ++ [0, 0])
      (min it.1.length (B - (o + 2)) + 1)

/-- The client's loop over the buffer `mxOutPure` built: it extracts a prefix of the concatenated chunks; all of
them exactly when the names, with their NULs, take at most `B` bytes behind `out0` (then the last name has lost
at most its final character). -/
theorem mxParts_run (L B : Nat) (hB : B ≤ 65536) : ∀ (items : List (List Nat × List Nat)) (out0 acc : List Nat)
    (fuel : Nat), Uniform L items → (∀ it ∈ items, Carries it.1 it.2) → out0.length < B →
    acc.length + (items.map (·.2)).flatten.length < 65536 →
    (mxOutPure B (items.map (·.1)) out0).length - out0.length ≤ fuel →
    ∃ D, mxParts L (mxOutPure B (items.map (·.1)) out0).length (mxOutPure B (items.map (·.1)) out0 ++ [0]) fuel
          out0.length acc = acc ++ D ∧ D <+: (items.map (·.2)).flatten ∧
      (out0.length + joinedLen (items.map (·.1)) ≤ B → D = (items.map (·.2)).flatten) ∧
      (B < out0.length + joinedLen (items.map (·.1)) → D.length < (items.map (·.2)).flatten.length) ∧
      D = mxExpected L B items out0.length acc.length := by
  intro items
  induction items with
  | nil =>
    intro out0 acc fuel _ _ ho _ _
    refine ⟨[], ?_, List.nil_prefix, fun _ => rfl, fun h => ?_, rfl⟩
    · simp only [List.map_nil, mxOutPure, List.append_nil]
      exact mxParts_zero_len _ _ _ _ _ _ (Nat.le_refl _)
    · simp [joinedLen] at h; omega
  | cons it rest ih =>
    intro out0 acc fuel hU hC ho hacc hfuel
    obtain ⟨n, ch⟩ := it
    obtain ⟨hnL, hnLast, hUrest⟩ := hU
    have hc := hC (n, ch) (by simp)
    have hCrest : ∀ it ∈ rest, Carries it.1 it.2 := fun it hit => hC it (by simp [hit])
    simp only at hnL hnLast hc
    have hn4 := hc.len_ge
    have hchpos : 0 < ch.length := List.length_pos_iff.mpr hc.chunk_ne
    simp only [List.map_cons, mxOutPure, List.flatten_cons, List.length_append, joinedLen_cons, mxExpected] at hacc hfuel ⊢
    by_cases hroom : out0.length + 2 ≥ B
    · -- no room for another name
      rw [if_pos hroom, if_pos hroom]
      refine ⟨[], ?_, List.nil_prefix, fun h => by omega, fun _ => by simp only [List.length_nil]; omega, rfl⟩
      rw [List.append_nil]
      exact mxParts_zero_len _ _ _ _ _ _ (Nat.le_refl _)
    · rw [if_neg hroom] at hfuel ⊢
      rw [if_neg hroom]
      generalize hl : min n.length (B - (out0.length + 2)) = l at hfuel ⊢
      have hl1 : 1 ≤ l := by omega
      have hln : l ≤ n.length := by omega
      have hout' : (out0 ++ n.take l ++ [0]).length = out0.length + l + 1 := by
        simp only [List.length_append, List.length_take, List.length_cons, List.length_nil]; omega
      obtain ⟨X, hX⟩ := mxOutPure_prefix B (rest.map (·.1)) (out0 ++ n.take l ++ [0])
      generalize hR : mxOutPure B (rest.map (·.1)) (out0 ++ n.take l ++ [0]) = R at hfuel hX ⊢
      have hRlen : R.length = out0.length + l + 1 + X.length := by rw [← hX, List.length_append, hout']
      have hmem : (R ++ [0]).drop out0.length = n.take l ++ 0 :: (X ++ [0]) := by
        rw [← hX]
        simp only [List.append_assoc]
        rw [List.drop_left' rfl]
        simp
      have hds : ¬ (dataSize - acc.length = 0) := by simp only [dataSize]; omega
      have hN : ch.length ≤ dataSize - acc.length := by simp only [dataSize]; omega
      by_cases hlL : l = L
      · -- a name of the common length: decoded with its own length
        have hnl : n.length = L := by omega
        have htake : n.take l = n := List.take_of_length_le (by omega)
        obtain ⟨f, rfl⟩ : ∃ f, fuel = f + 1 := ⟨fuel - 1, by omega⟩
        have htpl : min L (R.length - out0.length) = L := by omega
        have hd : dnsNamedec (dataSize - acc.length) ((R ++ [0]).drop out0.length) L = ch := by
          rw [hmem, htake]
          exact hc.exact _ _ _ (Or.inl hnl.symm) hN
        simp only [mxParts, htpl, hd]
        rw [if_neg (by omega), if_neg (by omega)]
        have hoff : out0.length + L + 1 = (out0 ++ n.take l ++ [0]).length := by rw [hout', hlL]
        rw [hoff, ← hR]
        obtain ⟨D, hD, hpre, hex, hnex, hexp⟩ := ih (out0 ++ n.take l ++ [0]) (acc ++ ch) f hUrest hCrest
          (by rw [hout']; omega) (by simp only [List.length_append]; omega) (by rw [hR, hout']; omega)
        refine ⟨ch ++ D, ?_, ?_, ?_, ?_, ?_⟩
        · rw [hD, List.append_assoc]
        · exact (List.prefix_append_right_inj ch).mpr hpre
        · intro hfit
          rw [hex (by rw [hout']; omega)]
        · intro hnfit
          have := hnex (by rw [hout']; omega)
          simp only [List.length_append]
          omega
        · rw [if_pos hlL, hexp, hout', List.length_append]
      · -- a shorter (last or truncated) name: nothing follows it in the buffer
        have hlt : l < L := by omega
        have hRout : R = out0 ++ n.take l ++ [0] := by
          rw [← hR]
          by_cases htr : l < n.length
          · -- truncated: the buffer is full
            cases hrest : rest.map (·.1) with
            | nil => rfl
            | cons a b =>
              simp only [mxOutPure]
              rw [if_pos (by rw [hout']; omega)]
          · have : rest = [] := by
              cases rest with
              | nil => rfl
              | cons a b => have := hnLast (by simp); omega
            rw [this]; rfl
        have hX0 : X = [] := by
          have h1 : R.length = out0.length + l + 1 := by rw [hRout, hout']
          exact List.eq_nil_of_length_eq_zero (by omega)
        rw [hX0] at hmem hRlen
        simp only [List.length_nil, Nat.add_zero] at hRlen
        obtain ⟨f, rfl⟩ : ∃ f, fuel = f + 1 := ⟨fuel - 1, by omega⟩
        have htpl : min L (R.length - out0.length) = l + 1 := by omega
        have hdpre := hc.cut (dataSize - acc.length) l (l + 1) ([] ++ [0]) hl1 hln (Nat.le_refl _)
        have hb : R.length ≤ out0.length + (l + 1) + 1 := by omega
        -- what the decoder makes of this last part, by how much of the name is there
        have hcase : (out0.length + (n.length + 1 + joinedLen (rest.map (·.1))) ≤ B →
              dnsNamedec (dataSize - acc.length) (n.take l ++ 0 :: ([] ++ [0])) (l + 1) = ch ∧ rest = []) ∧
            (B < out0.length + (n.length + 1 + joinedLen (rest.map (·.1))) →
              (dnsNamedec (dataSize - acc.length) (n.take l ++ 0 :: ([] ++ [0])) (l + 1)).length < ch.length ∨
              (dnsNamedec (dataSize - acc.length) (n.take l ++ 0 :: ([] ++ [0])) (l + 1) = ch ∧ rest ≠ [])) := by
          have hrestpos : rest ≠ [] → 5 ≤ joinedLen (rest.map (·.1)) := joinedLen_pos rest hCrest
          by_cases hwhole : l = n.length
          · -- the whole name is there; it is the last one
            have hrest : rest = [] := by
              cases rest with
              | nil => rfl
              | cons a b => have := hnLast (by simp); omega
            have htake : n.take l = n := List.take_of_length_le (by omega)
            rw [htake, hc.exact _ (l + 1) _ (Or.inr (by rw [hwhole])) hN, hrest]
            refine ⟨fun _ => ⟨rfl, rfl⟩, fun h => ?_⟩
            simp [joinedLen] at h
            omega
          · -- truncated: l = B - out0.length - 2
            have hlB : l = B - (out0.length + 2) := by omega
            by_cases hone : l + 1 = n.length
            · have hl' : l = n.length - 1 := by omega
              have hdec : dnsNamedec (dataSize - acc.length) (n.take l ++ 0 :: ([] ++ [0])) (l + 1) = ch := by
                rw [hl', show n.length - 1 + 1 = n.length by omega]
                exact hc.exact1 _ _ hN
              rw [hdec]
              constructor
              · intro hfit
                refine ⟨rfl, ?_⟩
                cases rest with
                | nil => rfl
                | cons a b => have := hrestpos (by simp); omega
              · intro hnfit
                right
                refine ⟨rfl, ?_⟩
                intro hr
                rw [hr] at hnfit
                simp [joinedLen] at hnfit
                omega
            · constructor
              · intro hfit; omega
              · intro _
                left
                exact hc.strict _ l _ hl1 (by omega)
        simp only [mxParts, htpl, hmem]
        rw [if_neg (by omega)]
        rw [if_neg hlL]
        rw [show n.take l ++ [0, 0] = n.take l ++ 0 :: ([] ++ [0]) from rfl]
        generalize dnsNamedec (dataSize - acc.length) (n.take l ++ 0 :: ([] ++ [0])) (l + 1) = d at hdpre hcase ⊢
        by_cases hd0 : d.length = 0
        · rw [if_pos hd0]
          refine ⟨[], by simp, List.nil_prefix, ?_, ?_, (List.eq_nil_of_length_eq_zero hd0).symm⟩
          · intro hfit
            have := (hcase.1 hfit).1
            rw [this] at hd0
            omega
          · intro _
            simp only [List.length_nil]; omega
        · rw [if_neg hd0]
          rw [mxParts_zero_len _ _ _ _ _ _ hb]
          refine ⟨d, rfl, List.IsPrefix.trans hdpre (List.prefix_append _ _), ?_, ?_, rfl⟩
          · intro hfit
            obtain ⟨h1, h2⟩ := hcase.1 hfit
            rw [h1, h2]; simp
          · intro hnfit
            rcases hcase.2 hnfit with h | ⟨h1, h2⟩
            · omega
            · have := flatten_pos rest hCrest h2
              rw [h1]; omega

end Iodine.Downstream
