import IodineModel.Lemmas.C02rO2
import IodineModel.Lemmas.C02rH1
/-
C02 / OVERLAPPING transfers, lazy mode, ENDINGS — the MID step of the invariant `UpFlightNQ` (C02rO2): an upstream fragment
that is not the last one of its packet is in flight and the server holds NO query. Two steps of the prompt scheduler
(`deliverUp`, `deliverDown`) advance the transfer by one fragment and re-establish the invariant:
1. the server stores the fragment and, holding no query and having no downstream data, answers the data query AT ONCE with a
   dataless acknowledgement (`srv_recv_mid_noq_idle`, C02rH1);
2. the client takes this dataless answer to its MOST RECENT query (`tunnelDns_dataless_cur`), whose header acknowledges the
   fragment in flight, and sends the next fragment (`upstream_ack_more`).
-/
namespace Iodine.C02L
open Iodine Iodine.Gen Iodine.World

private theorem cstatL_hintBook_rO {P : Par} {c : Client.Cli} (hc : CStatL P c) : CStatL P (hintBook c) :=
  ⟨hc.running, hc.conn, hc.lz, hc.uid, hc.uch, hc.td, hc.L, hc.enc, hc.ty, hc.cid, hc.cmc,
    by show ¬ c.now + 60 < c.now; omega, hc.oseq, hc.iseq, hc.ifrag, hc.seed⟩

private theorem cntOk_hintBook_rO {c : Client.Cli} (d : Nat) (h : CntOk c (d + 1)) : CntOk (hintBook c) d := by
  have := ackBook_cnt' c d h
  unfold CntOk at *
  exact this

theorem upnq_mid_step {P : Par} (hP : P.Ok) {out : List Nat} {w : W} {c0 : Client.Cli} {o f : Nat}
    (h : UpFlightNQ P out w c0 o f) (h64 : out.length ≤ 65536)
    (hlt : o + fragLen P (out.drop o) < out.length) (hf1 : f + 1 < 16) :
    ∃ w' c0', promptSteps P.u 2 w = some w' ∧ UpFlightNQ P out w' c0' (o + fragLen P (out.drop o)) (f + 1) ∧
      w'.tunS = w.tunS ∧ w'.tunC = w.tunC ∧ c0'.outpkt.seqno = c0.outpkt.seqno ∧
      (Server.getUser w'.srv P.u).tunIp = (Server.getUser w.srv P.u).tunIp ∧
      (Server.getUser w'.srv P.u).fragsize = (Server.getUser w.srv P.u).fragsize := by
  obtain ⟨name, hsend, hm1, hm2, hQ⟩ := send_readyL hP h.ready
  generalize hm : fragLen P (out.drop o) = m at *
  have hlast : (m == out.length - o) = false := by
    rw [beq_eq_false_iff_ne]; omega
  rw [hlast] at hQ
  have hsf := sentFactsL c0
  have hsi := sentIdsL c0
  have hcst := cstat_sentL h.ready
  have hup : w.up = [.query (sentState c0).chunkid P.ty name] := by rw [h.up, hsend]; rfl
  have hsq : c0.outpkt.seqno.toNat < 8 := by have := h.ready.stat.oseq; omega
  have hsqc : ((c0.outpkt.seqno.toNat : Nat) : Int) = c0.outpkt.seqno := by have := h.ready.stat.oseq; omega
  -- step 1: the server stores the fragment and, holding no query, answers the data query at once (dataless)
  obtain ⟨s', evs, t, pkt, hit, hdown, htun, hps', hout', hE', htip', hfrs', hnow', hlen2, hdn, hus, huf, hA', hPA'⟩ :=
    srv_recv_mid_noq_idle hP h.srv.stat h.srv h.op h.ready.stat.cmc h.aged h.paged hQ h.expect hsq h.ready.hf hm2 h64
  have hq1 : quiet P.u w = false := quiet_false_of_up _ _ _ _ hup
  have hs1 : step w (promptEv w) =
      { w with up := [], srv := s', down := [.ans (sentState c0).chunkid P.ty name pkt] } := by
    rw [promptEv_up w _ _ hup, step_deliverUp w _ _ hup, srvInput_query, stepS_zero { w with up := [] } _ s' evs t hit, hdown, htun]
    simp [h.down, upQuery]
  -- step 2: the client receives the acknowledgement (a dataless answer to its most recent query)
  generalize hw2 : ({ w with up := [], srv := s', down := [.ans (sentState c0).chunkid P.ty name pkt] } : W) = w2 at hs1
  have hw2cs : w2.cs = w.cs := by subst hw2; rfl
  have hw2up : w2.up = [] := by subst hw2; rfl
  have hw2down : w2.down = [.ans (sentState c0).chunkid P.ty name pkt] := by subst hw2; rfl
  have hq2 : quiet P.u w2 = false := quiet_false_of_down _ _ _ _ hw2down
  have hcnt2 : CntOk { sentStateL c0 with sendPingSoon := 0 } 2 := hsi.cnt h.ready.cnt
  have hcnt1 : CntOk { sentStateL c0 with sendPingSoon := 0 } 1 := sentStateL_cnt0rO c0 h.cnt0
  generalize hc : ({ sentStateL c0 with sendPingSoon := 0 } : Client.Cli) = c at hsf hcst hsi hcnt2 hcnt1
  have hwc : w.cs = ⟨c, .tunnel⟩ := by rw [cstate_eta w.cs h.ph, h.cli, hc]
  -- the answer as the client's `read_dns` delivers it
  have hcid : c.chunkid = (sentState c0).chunkid := hsi.cid
  generalize hid1 : (sentState c0).chunkid = id1 at hw2down hcid
  generalize hrq : (Client.Rq.mk (pkt.length : Int) id1 (answerType P.ty) 0 (name.headD 0) pkt) = rq
  have hsps : (c.sendPingSoon != 0) = false := by simp [hsf.sps]
  have hdl : Client.tunnelDns c rq = Client.upstream (hintBook c) (Client.decodeHdr pkt) [] false 2 := by
    have := tunnelDns_dataless_cur c rq
      (by subst hrq; show Client.notData c (name.headD 0) = false
          rw [headD_eq_getD]
          exact notData_held (hsf.useridChar.trans h.ready.stat.uch) _ (Or.inl hQ.c0))
      (by subst hrq; exact hlen2)
      (by subst hrq; exact hcid.symm)
      hcst.lz
      (by subst hrq; show (Client.decodeHdr pkt).dnSeq = c.inpkt.seqno; rw [hdn, hsf.inpkt]; exact h.syncd)
    rw [hsps] at this
    subst hrq
    exact this
  have hbk : (hintBook c).outpkt = c.outpkt := rfl
  have hmore := upstream_ack_more (hintBook c) (Client.decodeHdr pkt) [] false 2
    (by
      have hlen0 : out.length ≠ 0 := by have := h.ready.ho; omega
      unfold Client.isSending
      rw [hbk, hsf.olen, h.ready.len]
      simpa using hlen0)
    (by rw [hus, hbk, hsf.oseq]; exact hsqc)
    (by rw [huf, hbk, hsf.ofrag, h.ready.frag])
    (by rw [hbk, hsf.ooff, hsf.osent, hsf.olen, cFragLen_readyL h.ready, hm, h.ready.off, h.ready.len]; exact hlt)
  -- the next ready state
  generalize hc0' : ackNext (hintBook c) = c0' at hmore
  have hready' : CReadyL P c0' out (o + m) (f + 1) := by
    subst hc0'
    have hb := cstatL_hintBook_rO hcst
    refine ⟨⟨hb.running, hb.conn, hb.lz, hb.uid, hb.uch, hb.td, hb.L, hb.enc, hb.ty, hb.cid, hb.cmc, hb.alive, hb.oseq, hb.iseq, hb.ifrag, hb.seed⟩,
      cntOk_ackNext _ _ (cntOk_hintBook_rO 1 hcnt2), ?_, ?_, ?_, ?_, hlt, hf1, h.ready.bytes⟩
    · show c.outpkt.data = out; rw [hsf.odata]; exact h.ready.data
    · show c.outpkt.len = out.length; rw [hsf.olen]; exact h.ready.len
    · show c.outpkt.offset + c.outpkt.sentlen = o + m
      rw [hsf.ooff, hsf.osent, cFragLen_readyL h.ready, hm, h.ready.off]
    · show Client.sChar (c.outpkt.fragment + 1) = ((f + 1 : Nat) : Int)
      rw [hsf.ofrag, h.ready.frag, sChar_small _ (by omega)]
      omega
  have hcnt0' : CntOk c0' 0 := by
    subst hc0'
    exact cntOk_ackNext _ _ (cntOk_hintBook_rO 0 hcnt1)
  obtain ⟨name', hsend', _, _, _⟩ := send_readyL hP hready'
  have hsf' := sentFactsL c0'
  have hstep2 : Client.cstep w2.cs (.rq rq) =
      (⟨{ sentStateL c0' with sendPingSoon := 0 }, .tunnel⟩, [] ++ (Client.sendChunk c0').evs,
       .sel (Client.selectOf { sentStateL c0' with sendPingSoon := 0 })) := by
    rw [hw2cs, hwc, cstep_rq c rq hcst.running hcst.alive hcst.conn, hdl, hmore]
    rw [settle_afterSend _ _ _ (by rw [hsend']) (by rw [hsend']; have := hsf'.running; simpa using this.trans hready'.stat.running)]
    rw [hsend']
  have hnowc : ({ sentStateL c0' with sendPingSoon := 0 } : Client.Cli).now = w2.cs.c.now := by
    rw [hsf'.now, hw2cs, hwc]
    subst hc0'; rfl
  have hs2 : step w2 (promptEv w2) =
      { w2 with down := [], cs := ⟨{ sentStateL c0' with sendPingSoon := 0 }, .tunnel⟩,
                up := upOfEvents (Client.sendChunk c0').evs } := by
    rw [promptEv_down w2 _ _ hw2up hw2down, step_deliverDown w2 _ _ hw2down]
    have hci : cliInput (.ans id1 P.ty name pkt) = .rq rq := by subst hrq; rfl
    rw [hci, stepC_of _ _ _ _ _ (by exact hstep2) (by exact hnowc)]
    subst hw2
    simp [hsend', tunOfCEvents]
  have hcmc' : c0'.datacmc = (c0.datacmc + 1) % 36 := by
    subst hc0'; show c.datacmc = _; rw [hsf.cmc]
    have := h.ready.stat.cmc
    split <;> omega
  have hseed' : c0'.randSeed = c0.randSeed := by subst hc0'; show c.randSeed = _; exact hsf.seed
  have hsq' : c0'.outpkt.seqno = c0.outpkt.seqno := by subst hc0'; show c.outpkt.seqno = _; exact hsf.oseq
  refine ⟨{ w2 with down := [], cs := ⟨{ sentStateL c0' with sendPingSoon := 0 }, .tunnel⟩,
                    up := upOfEvents (Client.sendChunk c0').evs }, c0', ?_, ?_, ?_, ?_, hsq', ?_, ?_⟩
  · rw [promptSteps_succ hq1, hs1, promptSteps_succ hq2, hs2]
    rfl
  · subst hw2
    refine ⟨rfl, hready', hcnt0', rfl, rfl, rfl, hps', ?_, ?_, ?_, ?_, ?_⟩
    · show (Server.getUser s' P.u).outpacket.len = 0
      rw [hout']; exact h.op
    · show Expect (Server.getUser s' P.u) out c0'.outpkt.seqno.toNat (o + m) (f + 1)
      rw [hsq']; exact hE'
    · show (Server.getUser s' P.u).outpacket.seqno = c0'.inpkt.seqno
      rw [hout', h.syncd]
      subst hc0'; show c0.inpkt.seqno = c.inpkt.seqno; rw [hsf.inpkt]
    · show Aged P (Server.getUser s' P.u) c0'.datacmc 1
      rw [hcmc']; exact hA'
    · show PAged P (Server.getUser s' P.u) c0'.randSeed 1
      rw [hseed']; exact hPA'
  · subst hw2; rfl
  · subst hw2; rfl
  · subst hw2; exact htip'
  · subst hw2; exact hfrs'

#print axioms upnq_mid_step

end Iodine.C02L
