import IodineModel.Lemmas.C02p
import IodineModel.Lemmas.Common
/-
C02 / hop — what ONE upstream / downstream datagram carries.

1. header characters: the server's parse (`parseUpHdr`) of the header the client builds (`chunkHeader`), the
   client's parse (`decodeHdr`) of the two header bytes the server builds (`scPkt`);
2. the upstream hop: the name `hdr ++ build_hostname(…)` is a legal name, `query_datalen` finds the data part,
   `unpack_data` of it is the consumed prefix of the payload (`up_hop5`, `up_hop1`);
3. `send_chunk` / `send_ping` in immediate mode, explicitly (`sendChunk_imm`, `sendPing_imm`).
-/
namespace Iodine.C02L
open Iodine

/-! ## 1. header characters -/

theorem b32_8to5_5to8 : ∀ v : Nat, v < 32 → Server.b32_8to5 (Client.b32_5to8 (v : Int)) = v := by decide

theorem maskI_nonneg (x : Int) (m : Nat) (h0 : 0 ≤ x) (hm : 0 < m) : Client.maskI x m = x.toNat % m := by
  unfold Client.maskI
  rw [Int.toNat_emod h0 (by omega)]
  simp

/-- `maskI` of a value in range is the value -/
theorem maskI_range (x : Int) (m : Nat) (h : 0 ≤ x ∧ x < (m : Int)) : Client.maskI x m = x.toNat := by
  rw [maskI_nonneg x m h.1 (by omega)]
  exact Nat.mod_eq_of_lt (by omega)

/-- header character 1: `(seqno & 7) << 2 | (fragment & 15) >> 2` -/
theorem hdrChar1 : ∀ a, a < 8 → ∀ f, f < 16 →
    a * 4 ||| f / 4 < 32 ∧ ((a * 4 ||| f / 4) >>> 2) &&& 7 = a ∧ (a * 4 ||| f / 4) &&& 3 = f / 4 := by decide

/-- header character 2: `(fragment & 3) << 3 | (inpkt.seqno & 7)` -/
theorem hdrChar2 : ∀ f, f < 16 → ∀ s, s < 8 →
    f % 4 * 8 ||| s < 32 ∧ ((f % 4 * 8 ||| s) >>> 3) &&& 3 = f % 4 ∧ (f % 4 * 8 ||| s) &&& 7 = s := by decide

/-- header character 3: `(inpkt.fragment & 15) << 1 | last` -/
theorem hdrChar3 : ∀ g, g < 16 → ∀ l, l < 2 →
    g * 2 ||| l < 32 ∧ (g * 2 ||| l) >>> 1 = g ∧ (g * 2 ||| l) &&& 1 = l := by decide

theorem fragJoin : ∀ f, f < 16 → (f / 4) <<< 2 ||| f % 4 = f := by decide

/-- what the server parses out of the header the client builds -/
theorem parseUpHdr_chunkHeader (c : Client.Cli) (last : Bool) (rest : List Nat)
    (h1 : 0 ≤ c.outpkt.seqno ∧ c.outpkt.seqno < 8) (h2 : 0 ≤ c.outpkt.fragment ∧ c.outpkt.fragment < 16)
    (h3 : 0 ≤ c.inpkt.seqno ∧ c.inpkt.seqno < 8) (h4 : 0 ≤ c.inpkt.fragment ∧ c.inpkt.fragment < 16) :
    parseUpHdr (Client.chunkHeader c last ++ rest) =
      { upSeq := c.outpkt.seqno.toNat, upFrag := c.outpkt.fragment.toNat, dnSeq := c.inpkt.seqno,
        dnFrag := c.inpkt.fragment, last := last } := by
  have e1 : Client.maskI c.outpkt.seqno 8 = c.outpkt.seqno.toNat := maskI_range _ _ (by omega)
  have e2 : Client.maskI c.outpkt.fragment 16 = c.outpkt.fragment.toNat := maskI_range _ _ (by omega)
  have e3 : Client.maskI c.outpkt.fragment 4 = c.outpkt.fragment.toNat % 4 := maskI_nonneg _ _ h2.1 (by omega)
  have e4 : Client.maskI c.inpkt.seqno 8 = c.inpkt.seqno.toNat := maskI_range _ _ (by omega)
  have e5 : Client.maskI c.inpkt.fragment 16 = c.inpkt.fragment.toNat := maskI_range _ _ (by omega)
  have i3 : c.inpkt.seqno = (c.inpkt.seqno.toNat : Int) := (Int.toNat_of_nonneg h3.1).symm
  have i4 : c.inpkt.fragment = (c.inpkt.fragment.toNat : Int) := (Int.toNat_of_nonneg h4.1).symm
  have ha : c.outpkt.seqno.toNat < 8 := by omega
  have hf : c.outpkt.fragment.toNat < 16 := by omega
  have hs : c.inpkt.seqno.toNat < 8 := by omega
  have hg : c.inpkt.fragment.toNat < 16 := by omega
  generalize c.outpkt.seqno.toNat = a at *
  generalize c.outpkt.fragment.toNat = f at *
  generalize c.inpkt.seqno.toNat = s at *
  generalize c.inpkt.fragment.toNat = g at *
  have hl : (if last = true then 1 else 0) < 2 := by split <;> omega
  obtain ⟨k1, k2, k3⟩ := hdrChar1 a ha f hf
  obtain ⟨m1, m2, m3⟩ := hdrChar2 f hf s hs
  obtain ⟨n1, n2, n3⟩ := hdrChar3 g hg _ hl
  unfold parseUpHdr Client.chunkHeader
  simp only [List.cons_append, List.getD_cons_succ, List.getD_cons_zero, e1, e2, e3, e4, e5]
  rw [b32_8to5_5to8 _ k1, b32_8to5_5to8 _ m1, b32_8to5_5to8 _ n1, k2, k3, m2, m3, n2, n3, fragJoin f hf, i3, i4]
  cases last <;> simp

/-! ### the header as a string -/

theorem chunkHeader_len (c : Client.Cli) (last : Bool) : (Client.chunkHeader c last).length = 5 := rfl

theorem chunkHeader_getD0 (c : Client.Cli) (last : Bool) : (Client.chunkHeader c last).getD 0 0 = c.useridChar := rfl

theorem chunkHeader_getD4 (c : Client.Cli) (last : Bool) : (Client.chunkHeader c last).getD 4 0 = cmcChar c.datacmc := rfl

theorem cb32_chars : ∀ i, i < 32 → Gen.cb32.getD i 0 ≠ 46 ∧ Gen.cb32.getD i 0 ≠ 0 ∧ Gen.cb32.getD i 0 < 256 := by decide

/-- every `b32_5to8` value is a Base32 character -/
theorem b32_5to8_char (x : Int) : Client.b32_5to8 x ≠ 46 ∧ Client.b32_5to8 x ≠ 0 ∧ Client.b32_5to8 x < 256 := by
  unfold Client.b32_5to8
  apply cb32_chars
  unfold Client.maskI
  omega

theorem hexLower_chars : ∀ u, u < 16 → hexLower u ≠ 46 ∧ hexLower u ≠ 0 ∧ hexLower u < 256 := by decide

/-- `cmcChar`: lower-case letters and digits -/
theorem cmcChar_chars : ∀ n, n < 36 →
    cmcChar n ≠ 46 ∧ cmcChar n ≠ 0 ∧ cmcChar n < 256 ∧
      ((97 ≤ cmcChar n ∧ cmcChar n ≤ 122) ∨ (48 ≤ cmcChar n ∧ cmcChar n ≤ 57)) := by decide

/-- the case folding of `Server.dataCmc` leaves a `cmcChar` alone -/
theorem cmcChar_nofold (n : Nat) (h : n < 36) : ¬ (65 ≤ cmcChar n ∧ cmcChar n ≤ 90) := by
  have := (cmcChar_chars n h).2.2.2
  omega

theorem cmcChar_eq_add : ∀ n, n < 36 → cmcChar n = if n < 26 then 97 + n else 22 + n := by decide

/-- `cmcChar` is injective on `[0, 36)` -/
theorem cmcChar_inj (a b : Nat) (ha : a < 36) (hb : b < 36) (h : cmcChar a = cmcChar b) : a = b := by
  rw [cmcChar_eq_add a ha, cmcChar_eq_add b hb] at h
  split at h <;> split at h <;> omega

/-- every character of the header is neither a dot nor NUL, and a byte -/
theorem chunkHeader_chars (c : Client.Cli) (last : Bool) (u : Nat) (hu : u < 16) (hc : c.useridChar = hexLower u)
    (hd : c.datacmc < 36) : ∀ ch ∈ Client.chunkHeader c last, ch ≠ 46 ∧ ch ≠ 0 ∧ ch < 256 := by
  intro ch hch
  unfold Client.chunkHeader at hch
  simp only [List.mem_cons, List.not_mem_nil, or_false] at hch
  rcases hch with rfl | rfl | rfl | rfl | rfl
  · rw [hc]; exact hexLower_chars u hu
  · exact b32_5to8_char _
  · exact b32_5to8_char _
  · exact b32_5to8_char _
  · have := cmcChar_chars c.datacmc hd
    exact ⟨this.1, this.2.1, this.2.2.1⟩

/-! ### the downstream header -/

theorem scHdr0 : ∀ s, s < 8 → ∀ f, f < 16 →
    (128 ||| (s <<< 4) ||| f) / 16 % 8 = s ∧ (128 ||| (s <<< 4) ||| f) % 16 = f := by decide

theorem scHdr1 : ∀ s, s < 8 → ∀ f, f < 16 → ∀ l, l < 2 →
    ((s <<< 5) ||| (f <<< 1) ||| l) / 32 % 8 = s ∧ ((s <<< 5) ||| (f <<< 1) ||| l) / 2 % 16 = f ∧
      ((s <<< 5) ||| (f <<< 1) ||| l) % 2 = l := by decide

theorem toNat_emod_range (x : Int) (m : Nat) (h : 0 ≤ x ∧ x < (m : Int)) : (x % (m : Int)).toNat = x.toNat :=
  maskI_range x m h

/-- what the client parses out of the two header bytes the server builds (`scPkt`) -/
theorem decodeHdr_scPkt (x : Server.Session) (n : Nat)
    (h1 : 0 ≤ x.inpacket.seqno ∧ x.inpacket.seqno < 8) (h2 : 0 ≤ x.inpacket.fragment ∧ x.inpacket.fragment < 16)
    (h3 : 0 ≤ x.outpacket.seqno ∧ x.outpacket.seqno < 8) (h4 : 0 ≤ x.outpacket.fragment ∧ x.outpacket.fragment < 16) :
    Client.decodeHdr (Server.scPkt x n) =
      { dnSeq := x.outpacket.seqno, dnFrag := x.outpacket.fragment, upSeq := x.inpacket.seqno,
        upFrag := x.inpacket.fragment,
        last := decide (x.outpacket.len > 0 ∧ x.outpacket.len = x.outpacket.offset + n) } := by
  have e1 : (x.inpacket.seqno % 8).toNat = x.inpacket.seqno.toNat := toNat_emod_range _ 8 h1
  have e2 : (x.inpacket.fragment % 16).toNat = x.inpacket.fragment.toNat := toNat_emod_range _ 16 h2
  have e3 : (x.outpacket.seqno % 8).toNat = x.outpacket.seqno.toNat := toNat_emod_range _ 8 h3
  have e4 : (x.outpacket.fragment % 16).toNat = x.outpacket.fragment.toNat := toNat_emod_range _ 16 h4
  have i1 : x.inpacket.seqno = (x.inpacket.seqno.toNat : Int) := (Int.toNat_of_nonneg h1.1).symm
  have i2 : x.inpacket.fragment = (x.inpacket.fragment.toNat : Int) := (Int.toNat_of_nonneg h2.1).symm
  have i3 : x.outpacket.seqno = (x.outpacket.seqno.toNat : Int) := (Int.toNat_of_nonneg h3.1).symm
  have i4 : x.outpacket.fragment = (x.outpacket.fragment.toNat : Int) := (Int.toNat_of_nonneg h4.1).symm
  have b1 : x.inpacket.seqno.toNat < 8 := by omega
  have b2 : x.inpacket.fragment.toNat < 16 := by omega
  have b3 : x.outpacket.seqno.toNat < 8 := by omega
  have b4 : x.outpacket.fragment.toNat < 16 := by omega
  generalize x.inpacket.seqno.toNat = a at *
  generalize x.inpacket.fragment.toNat = f at *
  generalize x.outpacket.seqno.toNat = s at *
  generalize x.outpacket.fragment.toNat = g at *
  have hl : (if x.outpacket.len > 0 ∧ x.outpacket.len = x.outpacket.offset + n then 1 else 0) < 2 := by
    split <;> omega
  obtain ⟨k1, k2⟩ := scHdr0 a b1 f b2
  obtain ⟨m1, m2, m3⟩ := scHdr1 s b3 g b4 _ hl
  unfold Client.decodeHdr Server.scPkt
  simp only [List.cons_append, List.getD_cons_succ, List.getD_cons_zero, e1, e2, e3, e4]
  rw [k1, k2, m1, m2, m3, i1, i2, i3, i4]
  by_cases hc : x.outpacket.len > 0 ∧ x.outpacket.len = x.outpacket.offset + n
  · rw [if_pos hc, decide_eq_true hc]; rfl
  · rw [if_neg hc, decide_eq_false hc]; rfl

theorem scPkt_length (x : Server.Session) (n : Nat) :
    (Server.scPkt x n).length = 2 + min n (x.outpacket.data.length - x.outpacket.offset) := by
  unfold Server.scPkt
  simp only [List.length_append, List.length_cons, List.length_nil, List.length_take, List.length_drop]

theorem scPkt_drop2 (x : Server.Session) (n : Nat) :
    (Server.scPkt x n).drop 2 = (x.outpacket.data.drop x.outpacket.offset).take n := rfl

/-! ## 2. the upstream hop -/

theorem mem_dotifyAux (s : List Nat) : ∀ k, ∀ ch ∈ Encoding.dotifyAux k s, ch = 46 ∨ ch ∈ s := by
  induction s with
  | nil => intro k ch h; simp [Encoding.dotifyAux] at h
  | cons c cs ih =>
    intro k ch h
    simp only [Encoding.dotifyAux] at h
    split at h
    · simp only [List.mem_cons] at h
      rcases h with rfl | h | h
      · simp
      · exact Or.inl h
      · rcases ih 0 ch h with h | h
        · exact Or.inl h
        · exact Or.inr (List.mem_cons_of_mem _ h)
    · simp only [List.mem_cons] at h
      rcases h with rfl | h
      · simp
      · rcases ih (k + 1) ch h with h | h
        · exact Or.inl h
        · exact Or.inr (List.mem_cons_of_mem _ h)

/-- no NUL in the alphabet of a well-formed codec -/
theorem tbl_nonzero {cd : Codec.Codec} (wf : Codec.WF cd) : ∀ ch ∈ cd.tbl, ch ≠ 0 := by
  intro ch hch
  obtain ⟨i, hi, rfl⟩ := List.getElem_of_mem hch
  have := wf.nonzero i (by rw [← wf.len]; exact hi)
  unfold Codec.lookup at this
  rw [List.getD_eq_getElem?_getD, List.getElem?_eq_getElem hi] at this
  exact this

/-- the characters of a built name: alphabet, dots, domain -/
theorem built_chars {cd : Codec.Codec} {L : Nat} {td : List Nat} (S : UpSetting cd L td) (buflen prev : Nat)
    (d : List Nat) (b : Encoding.Built) (h : Encoding.buildHostname cd L buflen prev td d = some b) :
    ∀ ch ∈ b.name, ch ≠ 0 ∧ ch < 256 := by
  unfold Encoding.buildHostname at h
  split at h
  · cases h
  · simp only [Option.some.injEq] at h
    subst h
    intro ch hch
    simp only [List.mem_append] at hch
    have hdot : ∀ ch ∈ Encoding.dotify (Codec.enc cd
        (min L buflen - td.length - 8 - (min L buflen - td.length - 8) / 57) d).chars, ch ≠ 0 ∧ ch < 256 := by
      intro ch hch
      rcases mem_dotifyAux _ 0 ch hch with rfl | hm
      · omega
      · have ht := C07.chars_in_table S.wf _ _ ch hm
        exact ⟨tbl_nonzero S.wf ch ht, S.byte ch ht⟩
    rcases hch with hch | hch
    · split at hch
      · exact hdot ch hch
      · simp only [List.mem_append, List.mem_cons, List.not_mem_nil, or_false] at hch
        rcases hch with hch | rfl
        · exact hdot ch hch
        · unfold Encoding.DOT; omega
    · exact S.td_bytes ch hch

theorem sizeT_natCast (L : Nat) (h : L ≤ 255) : Client.sizeT (L : Int) = L := by
  unfold Client.sizeT
  omega

/-- the client's `build_hostname` in the normal case -/
theorem clientBuild_eq (cd : Codec.Codec) (L buflen prev : Nat) (td d : List Nat) (b : Encoding.Built) (hL : L ≤ 255)
    (h : Encoding.buildHostname cd L buflen prev td d = some b) :
    Client.buildHostname cd (L : Int) buflen prev td d = b := by
  unfold Client.buildHostname
  rw [sizeT_natCast L hL, h]

theorem unpackData_nil (cd : Codec.Codec) (cap : Nat) : Encoding.unpackData cd cap [] = [] := by
  simp [Encoding.unpackData, Encoding.undotify, Codec.dec, Codec.cstr, Codec.decAll, Codec.decBits, chunksN]

/-- the hop for a header of `h ∈ {1, 5}` characters, in terms of `Encoding.buildHostname` -/
theorem up_hop {cd : Codec.Codec} {L : Nat} {td : List Nat} (S : UpSetting cd L td) (h : Nat) (hh : h = 1 ∨ h = 5)
    (hdr d : List Nat) (prev : Nat) (hlen : hdr.length = h) (hhd : ∀ ch ∈ hdr, ch ≠ 46 ∧ ch ≠ 0 ∧ ch < 256)
    (hd : d ≠ []) (hb : Codec.Bytes d) :
    ∃ b, Encoding.buildHostname cd L (4096 - h) prev td d = some b ∧
      Client.buildHostname cd (L : Int) (4096 - h) prev td d = b ∧
      C10.LegalName (hdr ++ b.name) ∧ 1 ≤ b.used ∧ b.used ≤ d.length ∧
      ∃ dlen, Common.queryDatalen (hdr ++ b.name) td = some dlen ∧ h + 1 ≤ dlen ∧ dlen ≤ 255 ∧
        Encoding.unpackData cd 65536 (((hdr ++ b.name).take (min dlen 512)).drop h) = d.take b.used ∧
        (∀ i, i < h → ((hdr ++ b.name).take (min dlen 512)).getD i 0 = hdr.getD i 0) := by
  have hS : C08.Setting cd L h hdr td d :=
    ⟨S.wf, S.nodot, S.hL, ⟨hlen, hh⟩, fun ch hch => (hhd ch hch).1, S.td_len, S.td_legal, hd, hb⟩
  obtain ⟨b, hb', G⟩ := C08.hostname_ok hS prev
  have hb'' : Encoding.buildHostname cd L (4096 - h) prev td d = some b := hb'
  refine ⟨b, hb'', clientBuild_eq cd L _ prev td d b S.hL.2 hb'', ?_, G.used.1, G.used.2, ?_⟩
  · refine legalName_of_legalAux _ G.legal (by have := G.wire; omega) ?_
    intro ch hch
    rcases List.mem_append.mp hch with hch | hch
    · exact ⟨(hhd ch hch).2.1, (hhd ch hch).2.2⟩
    · exact built_chars S _ prev d b hb'' ch hch
  · obtain ⟨pre, hpre⟩ := G.suffix
    have htot : (hdr ++ b.name).length = pre.length + 1 + td.length := by
      rw [hpre]; simp only [List.length_append, List.length_cons, List.length_nil]
    have hw := G.wire
    have hq : Common.queryDatalen (hdr ++ b.name) td = some (pre.length + 1) :=
      (Common.queryDatalen_plain _ td _ S.td_len.1 S.td_plain).mpr
        ⟨pre ++ [46], td, hpre, rfl, Or.inr (by simp), by simp⟩
    have hext := G.extract
    unfold Encoding.serverExtract at hext
    rw [show (hdr ++ b.name).length - td.length = pre.length + 1 by omega] at hext
    have hmin : min (pre.length + 1) 512 = pre.length + 1 := by omega
    have hgt : h + 1 ≤ pre.length + 1 := by
      rcases Nat.lt_or_ge h (pre.length + 1) with hlt | hge
      · omega
      · exfalso
        have hnil : ((hdr ++ b.name).take (pre.length + 1)).drop h = [] := by
          apply List.eq_nil_of_length_eq_zero
          simp only [List.length_drop, List.length_take]
          omega
        rw [hnil, unpackData_nil] at hext
        have := congrArg List.length hext
        simp only [List.length_nil, List.length_take] at this
        have hdl : 0 < d.length := List.length_pos_iff.mpr hd
        have := G.used
        omega
    refine ⟨pre.length + 1, hq, hgt, by omega, ?_, ?_⟩
    · rw [hmin]; exact hext
    · intro i hi
      rw [hmin]
      simp only [List.getD_eq_getElem?_getD, List.getElem?_take]
      rw [if_pos (by omega), List.getElem?_append_left (by omega)]

/-- **the upstream hop for a data query** (5-character header, negotiated codec) -/
theorem up_hop5 {cd : Codec.Codec} {L : Nat} {td : List Nat} (S : UpSetting cd L td) (hdr d : List Nat)
    (hh : hdr.length = 5) (hhd : ∀ ch ∈ hdr, ch ≠ 46 ∧ ch ≠ 0 ∧ ch < 256) (hd : d ≠ []) (hb : Codec.Bytes d) :
    let b := Client.buildHostname cd (L : Int) 4091 0 td d
    C10.LegalName (hdr ++ b.name) ∧ 1 ≤ b.used ∧ b.used ≤ d.length ∧
    ∃ dlen, Common.queryDatalen (hdr ++ b.name) td = some dlen ∧ 6 ≤ dlen ∧ dlen ≤ 255 ∧
      Encoding.unpackData cd 65536 (((hdr ++ b.name).take (min dlen 512)).drop 5) = d.take b.used ∧
      (∀ i, i < 5 → ((hdr ++ b.name).take (min dlen 512)).getD i 0 = hdr.getD i 0) ∧
      (hdr ++ b.name).getD 0 0 = hdr.getD 0 0 ∧
      (hdr ++ b.name).getD 4 0 = hdr.getD 4 0 ∧ 5 ≤ (hdr ++ b.name).length := by
  obtain ⟨b, -, hcb, hleg, hu1, hu2, dlen, hq, h6, h255, hun, hget⟩ := up_hop S 5 (Or.inr rfl) hdr d 0 hh hhd hd hb
  simp only [show (4096 : Nat) - 5 = 4091 from rfl] at hcb
  simp only [hcb]
  refine ⟨hleg, hu1, hu2, dlen, hq, h6, h255, hun, hget, ?_, ?_, ?_⟩
  · simp only [List.getD_eq_getElem?_getD]; rw [List.getElem?_append_left (by omega)]
  · simp only [List.getD_eq_getElem?_getD]; rw [List.getElem?_append_left (by omega)]
  · simp only [List.length_append]; omega

/-- a 4-byte payload (the ping) always fits -/
theorem built_used4 {L : Nat} {td : List Nat} (S : UpSetting Codec.b32 L td) (buflen prev : Nat) (hbl : 255 ≤ buflen)
    (d : List Nat) (b : Encoding.Built) (h : Encoding.buildHostname Codec.b32 L buflen prev td d = some b)
    (h4 : d.length = 4) : b.used = 4 := by
  unfold Encoding.buildHostname at h
  split at h
  · cases h
  · simp only [Option.some.injEq] at h
    subst h
    have hL := S.hL
    have ht := S.td_len
    have hmin : min L buflen = L := by omega
    simp only [hmin]
    unfold Codec.enc
    have hk : Codec.b32.k = 5 := rfl
    have hn : Codec.nchars Codec.b32.k d.length = 7 := by rw [hk, h4]; rfl
    simp only [hn]
    rw [if_pos (by omega)]
    exact h4

/-- **the upstream hop for a one-character command** (`send_packet`: always Base32) -/
theorem up_hop1 {L : Nat} {td : List Nat} (S : UpSetting Codec.b32 L td) (cmd : Nat) (d : List Nat)
    (hc : cmd ≠ 46 ∧ cmd ≠ 0 ∧ cmd < 256) (hd : d ≠ []) (hb : Codec.Bytes d) :
    let b := Client.buildHostname Codec.b32 (L : Int) 4095 cmd td d
    C10.LegalName (cmd :: b.name) ∧ 1 ≤ b.used ∧ b.used ≤ d.length ∧
    (∃ dlen, Common.queryDatalen (cmd :: b.name) td = some dlen ∧ 2 ≤ dlen ∧ dlen ≤ 255 ∧
      Encoding.unpackData Codec.b32 65536 (((cmd :: b.name).take (min dlen 512)).drop 1) = d.take b.used ∧
      ((cmd :: b.name).take (min dlen 512)).getD 0 0 = cmd ∧ (cmd :: b.name).getD 0 0 = cmd ∧
      1 ≤ (cmd :: b.name).length) ∧
    (d.length = 4 → b.used = 4) := by
  obtain ⟨b, hbe, hcb, hleg, hu1, hu2, dlen, hq, h6, h255, hun, hget⟩ :=
    up_hop S 1 (Or.inl rfl) [cmd] d cmd rfl (by intro ch hch; simp only [List.mem_singleton] at hch; subst hch; exact hc) hd hb
  simp only [show (4096 : Nat) - 1 = 4095 from rfl] at hcb hbe
  simp only [hcb]
  refine ⟨hleg, hu1, hu2, ⟨dlen, hq, h6, h255, hun, hget 0 (by omega), rfl, by simp⟩, ?_⟩
  intro h4
  exact built_used4 S 4095 cmd (by omega) d b hbe h4

/-! ## 3. `send_chunk` / `send_ping` in immediate mode -/

/-- the Base32 instance of a setting (the ping is always Base32) -/
theorem UpSetting.toB32 {cd : Codec.Codec} {L : Nat} {td : List Nat} (S : UpSetting cd L td) : UpSetting Codec.b32 L td :=
  ⟨C07.wf_b32, C08.tables_nodot.1, tables_byte.1, S.hL, S.td_len, S.td_legal, S.td_plain, S.td_bytes⟩

/-- `send_query` of a legal name outside lazy mode: new id, one query event, no parking -/
theorem sendQuery_imm (c : Client.Cli) (host : List Nat) (hlazy : c.lazymode = false) (hqt : c.doQtype < 65536)
    (hleg : C10.LegalName host) :
    Client.sendQuery c host =
      ⟨Client.rotateChunkid c, [.query (Client.rotateChunkid c).chunkid c.doQtype host], false⟩ := by
  have hdq : (Client.rotateChunkid c).doQtype = c.doQtype := by simp [Client.rotateChunkid]
  have hw : Client.wireQuery (Client.rotateChunkid c).chunkid (Client.rotateChunkid c).doQtype
      (Client.rotateChunkid c).edns0 host = some (.query (Client.rotateChunkid c).chunkid c.doQtype host) := by
    rw [hdq]
    exact wireQuery_legal _ _ _ _ (Client.rotateChunkid_lt c) hqt hleg
  have hp : Client.sendQueryPlain c host =
      ((Client.rotateChunkid c, [.query (Client.rotateChunkid c).chunkid c.doQtype host]), true) := by
    unfold Client.sendQueryPlain
    simp only [hw]
  rw [Client.sendQuery_of_not_lazy c host hlazy, hp]

/-- **`send_chunk` in immediate mode**: the fragment is offered to `build_hostname`, the consumed length is stored
in `sentlen`, the data CMC steps, and exactly one query `header ++ name` with a fresh id goes out. -/
theorem sendChunk_imm (c : Client.Cli) (L : Nat) (td : List Nat) (u : Nat)
    (hlazy : c.lazymode = false) (hL : c.hostnameMaxlen = (L : Int)) (htd : c.topdomain = td)
    (S : UpSetting c.dataenc.codec L td) (hu : u < 16) (huc : c.useridChar = hexLower u) (hcmc : c.datacmc < 36)
    (hqt : c.doQtype < 65536)
    (hne : Client.outRest c.outpkt ≠ []) (hby : Codec.Bytes (Client.outRest c.outpkt)) :
    let b := Client.buildHostname c.dataenc.codec c.hostnameMaxlen 4091 0 c.topdomain (Client.outRest c.outpkt)
    let c2 : Client.Cli := { c with outpkt := { c.outpkt with sentlen := b.used } }
    let last : Bool := b.used == c.outpkt.len - c.outpkt.offset
    let c1 : Client.Cli := { c2 with datacmc := if c.datacmc + 1 ≥ 36 then 0 else c.datacmc + 1 }
    Client.sendChunk c =
      ⟨Client.rotateChunkid c1,
       [.query (Client.rotateChunkid c1).chunkid c.doQtype (Client.chunkHeader c2 last ++ b.name)], false⟩ := by
  subst htd
  intro b c2 last c1
  have hleg := (up_hop5 S (Client.chunkHeader c2 last) (Client.outRest c.outpkt) rfl
    (chunkHeader_chars c2 last u hu huc hcmc) hne hby).1
  rw [← hL] at hleg
  have h0 : Client.sendChunk c = Client.sendQuery c1 (Client.chunkHeader c2 last ++ b.name) := rfl
  rw [h0]
  exact sendQuery_imm c1 _ hlazy hqt hleg

/-- the four payload bytes of a ping, as `send_ping` computes them -/
def pingData (c : Client.Cli) : List Nat :=
  [Client.maskI c.userid 256, (Client.maskI c.inpkt.seqno 8 * 16 ||| Client.maskI c.inpkt.fragment 16) % 256,
   c.randSeed / 256 % 256, c.randSeed % 256]

theorem pingData_length (c : Client.Cli) : (pingData c).length = 4 := rfl

theorem pingData_bytes (c : Client.Cli) : Codec.Bytes (pingData c) := by
  intro x hx
  unfold pingData at hx
  simp only [List.mem_cons, List.not_mem_nil, or_false] at hx
  rcases hx with rfl | rfl | rfl | rfl
  · unfold Client.maskI; omega
  · exact Nat.mod_lt _ (by omega)
  · exact Nat.mod_lt _ (by omega)
  · exact Nat.mod_lt _ (by omega)

theorem pingByte1 : ∀ s, s < 8 → ∀ f, f < 16 → (s * 16 ||| f) % 256 = s * 16 ||| f := by decide

/-- the payload for values in range: user id, downstream ack nibbles, the 16-bit CMC big-endian -/
theorem pingData_eq (c : Client.Cli) (hu : 0 ≤ c.userid ∧ c.userid < 16) (hr : c.randSeed < 65536)
    (h3 : 0 ≤ c.inpkt.seqno ∧ c.inpkt.seqno < 8) (h4 : 0 ≤ c.inpkt.fragment ∧ c.inpkt.fragment < 16) :
    pingData c = [c.userid.toNat, c.inpkt.seqno.toNat * 16 ||| c.inpkt.fragment.toNat, c.randSeed / 256,
      c.randSeed % 256] := by
  unfold pingData
  rw [maskI_range c.userid 256 (by omega), maskI_range c.inpkt.seqno 8 (by omega),
    maskI_range c.inpkt.fragment 16 (by omega), pingByte1 _ (by omega) _ (by omega),
    Nat.mod_eq_of_lt (show c.randSeed / 256 < 256 by omega)]

/-- **`send_ping` in immediate mode** (DNS mode): the CMC steps, exactly one query `'p' ++ name` with a fresh id
goes out, and the name carries the whole 4-byte payload. -/
theorem sendPing_imm (c : Client.Cli) (cd : Codec.Codec) (L : Nat) (td : List Nat)
    (hlazy : c.lazymode = false) (hL : c.hostnameMaxlen = (L : Int)) (htd : c.topdomain = td)
    (S : UpSetting cd L td) (hqt : c.doQtype < 65536) (hconn : c.conn = .dnsNull) :
    let b := Client.buildHostname Codec.b32 c.hostnameMaxlen 4095 112 c.topdomain (pingData c)
    let c' : Client.Cli := { c with randSeed := (c.randSeed + 1) % 65536 }
    Client.sendPing c =
      ⟨Client.rotateChunkid c', [.query (Client.rotateChunkid c').chunkid c.doQtype (112 :: b.name)], false⟩ ∧
    b.used = 4 := by
  subst htd
  intro b c'
  have hhop := up_hop1 S.toB32 112 (pingData c) (by omega) (by unfold pingData; simp) (pingData_bytes c)
  rw [← hL] at hhop
  have h0 : Client.sendPing c = Client.sendQuery c' (112 :: b.name) := by
    unfold Client.sendPing
    rw [if_pos hconn]
    rfl
  rw [h0]
  exact ⟨sendQuery_imm c' _ hlazy hqt hhop.1, hhop.2.2.2.2 (pingData_length c)⟩

/-! ### non-vacuity: a concrete client satisfying all hypotheses, and what it sends -/

/-- user 3, Base32, domain `t.ab`, a 3-byte packet in flight -/
def exH : Client.Cli :=
  { Client.Cli.boot with topdomain := [116, 46, 97, 98], useridChar := 51, userid := 3, chunkid := 100, doQtype := 10,
                         conn := .dnsNull, running := true, datacmc := 35, randSeed := 513,
                         outpkt := { len := 3, sentlen := 0, offset := 0, data := [90, 1, 2], seqno := 5, fragment := 2 },
                         inpkt := { Client.Packet.zero with seqno := 6, fragment := 9 } }

theorem exH_setting : UpSetting exH.dataenc.codec 255 [116, 46, 97, 98] :=
  upSetting_of_enc .b32 255 _ (by omega) (by decide) (by decide) (by decide) (by decide)

example : Client.sendChunk exH =
    ⟨{ exH with outpkt := { exH.outpkt with sentlen := 3 }, datacmc := 0, chunkid := 7827, chunkidPrev := 100,
                chunkidPrev2 := 0 },
     [.query 7827 10 [51, 117, 119, 116, 57, 108, 105, 97, 113, 101, 46, 116, 46, 97, 98]], false⟩ := by
  have h := sendChunk_imm exH 255 [116, 46, 97, 98] 3 rfl rfl rfl exH_setting (by decide) (by decide) (by decide)
    (by decide) (by decide) (by unfold Codec.Bytes; decide)
  rw [h]
  decide +kernel

example : parseUpHdr [51, 117, 119, 116, 57, 108, 105, 97, 113, 101, 46, 116, 46, 97, 98] =
    { upSeq := 5, upFrag := 2, dnSeq := 6, dnFrag := 9, last := true } := by decide +kernel

example : (Client.sendPing exH).evs = [.query 7827 10 [112, 97, 110, 117, 113, 101, 97, 105, 46, 116, 46, 97, 98]] := by
  have h := (sendPing_imm exH _ 255 [116, 46, 97, 98] rfl rfl rfl exH_setting (by decide) rfl).1
  rw [h]
  decide +kernel

end Iodine.C02L
