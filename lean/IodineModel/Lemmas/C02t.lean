import IodineModel.World
/-
TESTS (not theorems about all runs): concrete runs of the joined model `World` under the prompt scheduler, evaluated by the
kernel (`decide +kernel`).  A login-free pre-established session (`World.demoImmediate`, `World.demoLazy`, `World.demoRaw`)
delivers packets of 1, 2 and 5 fragments in both directions exactly once, unchanged, and the joint state is quiescent
again afterwards; a sequence of packets is delivered in order.  (Part 1: immediate mode, raw mode.)
-/
namespace Iodine.C02L
open Iodine Iodine.World

/-- offer `f` on the client's (`up = true`) or the server's tun device and follow the prompt schedule: the run ends
quiescent after exactly `steps` scheduler events, the peer's tun device received exactly `f`, the own one nothing -/
def deliversOnce (w0 : W) (up : Bool) (f : List Nat) (steps : Nat) : Bool :=
  let r := runPromptCount 0 60 (step w0 (if up then .offerC f else .offerS f)) 0
  quiet 0 w0 && quiet 0 r.1 && r.2 == steps &&
  (if up then r.1.tunS == w0.tunS ++ [f] && r.1.tunC == w0.tunC else r.1.tunC == w0.tunC ++ [f] && r.1.tunS == w0.tunS)

/-- three packets offered one after the other (each after the previous one was delivered) arrive in order -/
def deliversInOrder (w0 : W) (up : Bool) (fs : List (List Nat)) : Bool :=
  let w := if up then offerAllC 0 60 w0 fs else offerAllS 0 60 w0 fs
  quiet 0 w && (if up then w.tunS == w0.tunS ++ fs && w.tunC == w0.tunC else w.tunC == w0.tunC ++ fs && w.tunS == w0.tunS)

/-! Upstream fragments carry 30 bytes (Base32, 60-character names), downstream fragments 30 bytes; a frame of `24 + n` bytes is
`25 + n` bytes compressed: n = 4 → 1 fragment, n = 30 → 2 fragments, n = 100 → 5 fragments in both directions.
Upstream (immediate and lazy) and downstream lazy: `2·k + 1` scheduler events for `k` fragments. -/

/-- TEST immediate mode, upstream, 1 / 2 / 5 fragments -/
theorem test_imm_up_1 : deliversOnce (demoImmediate .b32 .b32) true (demoFrame 9 4) 3 = true := by decide +kernel
theorem test_imm_up_2 : deliversOnce (demoImmediate .b32 .b32) true (demoFrame 9 30) 5 = true := by decide +kernel
theorem test_imm_up_5 : deliversOnce (demoImmediate .b32 .b32) true (demoFrame 9 100) 11 = true := by decide +kernel

/-- TEST immediate mode, downstream (the client polls once per second), 1 / 2 / 5 fragments -/
theorem test_imm_down_1 : deliversOnce (demoImmediate .b32 .b32) false (demoFrame 2 4) 3 = true := by decide +kernel
theorem test_imm_down_2 : deliversOnce (demoImmediate .b32 .b32) false (demoFrame 2 30) 8 = true := by decide +kernel
theorem test_imm_down_5 : deliversOnce (demoImmediate .b32 .b32) false (demoFrame 2 100) 14 = true := by decide +kernel

/-- TEST raw UDP mode, both directions -/
theorem test_raw_up : deliversOnce demoRaw true (demoFrame 9 100) 1 = true := by decide +kernel
theorem test_raw_down : deliversOnce demoRaw false (demoFrame 2 100) 1 = true := by decide +kernel

/-- TEST sequences in immediate mode -/
theorem test_seq_imm_up : deliversInOrder (demoImmediate .b32 .b32) true [demoFrame 9 4, demoFrame 9 40, demoFrame 9 10] = true := by
  decide +kernel
theorem test_seq_imm_down : deliversInOrder (demoImmediate .b32 .b32) false [demoFrame 2 4, demoFrame 2 40, demoFrame 2 10] = true := by
  decide +kernel

end Iodine.C02L
