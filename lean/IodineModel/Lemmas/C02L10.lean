import IodineModel.Lemmas.C02L9
/-
C02 / lazy mode, upstream — presentation in terms of `runPrompt` / `runPromptCount`, and NON-VACUITY: a concrete lazy
session (`World.demoLazy` with host names of 100 characters: user 0, "t.ab", Base32, NULL queries; the client's first ping
has been sent and is held by the server) satisfies `QuietLazy`, and the theorem applied to it.
-/
namespace Iodine.C02L
open Iodine Iodine.World

/-! ### the theorem in terms of the executable prompt run -/

/-- **clean path, upstream, lazy mode** (every payload that needs `g ≤ 16` fragments).  From a quiescent joint state in lazy
mode, `offerC frame` followed by the prompt schedule reaches, after exactly `2·g + 1` scheduler steps, a quiescent state
again; the server has written exactly one frame to its tun device — the offered one — and the client none. -/
theorem clean_path_upstream_lazy {P : Par} (hP : P.Ok) {w : W} (hq : QuietLazy P w) (frame : List Nat)
    (hok : UpFrameOk P (Server.getUser w.srv P.u).tunIp frame) :
    ∃ w', (∀ fuel, 2 * upFrags P (frame.length + 1) (0x5a :: frame) + 1 ≤ fuel →
        runPrompt P.u fuel (step w (.offerC frame)) = w') ∧
      (∀ fuel, 2 * upFrags P (frame.length + 1) (0x5a :: frame) + 1 ≤ fuel →
        runPromptCount P.u fuel (step w (.offerC frame)) 0 = (w', 2 * upFrags P (frame.length + 1) (0x5a :: frame) + 1)) ∧
      QuietLazy P w' ∧ w'.tunS = w.tunS ++ [tunImage frame] ∧ w'.tunC = w.tunC := by
  obtain ⟨w', h1, h2, h3, h4, _⟩ := up_packet_lazy hP hq frame hok.h24 hok.hl hok.bytes hok.dst hok.frags
  refine ⟨w', fun fuel hf => runPrompt_of_steps P.u _ _ _ h1 h2.quiet fuel hf, fun fuel hf => ?_, h2, h3, h4⟩
  have := runPromptCount_of_steps P.u _ _ _ h1 h2.quiet fuel 0 hf
  simpa using this

/-! ### non-vacuity -/

def exPL : Par := ⟨0, demoDomain, 100, .b32, .b32, 10⟩

/-- `World.demoLazy .b32 .b32` with `hostnameMaxlen := 100` -/
def exWL : W :=
  run ⟨⟨{ demoClient true false .b32 with hostnameMaxlen := 100 }, .tunnel⟩, demoServer true false .b32, [], [], [], []⟩
    [.tickC, .deliverUp]

theorem exPL_ok : exPL.Ok :=
  ⟨by decide, upSetting_of_enc .b32 100 demoDomain (by decide) (by decide) (by decide) (by decide) (by decide),
   trivial, by unfold TunnelType; decide⟩

/-- the client after its first ping -/
def exCL : Client.Cli :=
  { demoClient true false .b32 with
      hostnameMaxlen := 100, randSeed := 1, chunkid := 8727, chunkidPrev := 1000, sendcnt := 1, now := 1004 }

theorem exWL_client : exWL.cs = ⟨exCL, .tunnel⟩ := by decide +kernel

/-- the ping the server holds -/
def exHL : Server.Query :=
  { name := [112, 97, 97, 97, 97, 97, 97, 97, 46, 116, 46, 97, 98], type := 10, id := 8727, from_ := clientAddr, id2 := 0,
    from2 := Server.Addr.zero, dest := serverAddr }

theorem exWL_held : (Server.getUser exWL.srv 0).q = exHL := by decide +kernel

theorem exWL_users : exWL.srv.users.length = 16 := by decide +kernel

theorem exWL_solo : Solo 0 exWL.srv := by
  refine ⟨by rw [exWL_users]; decide, by decide +kernel, ?_⟩
  intro v hv
  by_cases h : v < 16
  · have : ∀ v, v < 16 → v ≠ 0 → (Server.getUser exWL.srv v).active = false := by decide +kernel
    exact this v h hv
  · unfold Server.getUser
    rw [List.getD_eq_getElem?_getD, List.getElem?_eq_none (by rw [exWL_users]; omega)]
    rfl

theorem exWL_aged : Aged exPL (Server.getUser exWL.srv 0) 0 1 := by
  refine ⟨by decide +kernel, by decide +kernel, by decide +kernel, by decide +kernel, ?_, ?_⟩
  · intro i hi c ⟨h1, _⟩
    have : ∀ i, i < 15 → ((Server.getUser exWL.srv 0).qmemdata.getD
        (C16L.ringPos Gen.QMEMDATA_LEN (Server.getUser exWL.srv 0).qmemdataLast i) Server.QmemEntry.zero).type = 0 := by
      decide +kernel
    rw [this i hi] at h1
    exact absurd h1 (by decide)
  · intro i hi c ⟨h1, _⟩
    have : ∀ i, i < 4 → ((Server.getUser exWL.srv 0).dnscache.getD
        (C16L.ringPos Gen.DNSCACHE_LEN (Server.getUser exWL.srv 0).dcLast i) Server.DnsCacheEntry.zero).q.type = 0 := by
      decide +kernel
    rw [this i hi] at h1
    exact absurd h1 (by decide)

theorem exWL_paged : PAged exPL (Server.getUser exWL.srv 0) 1 2 := by
  refine ⟨by decide +kernel, by decide +kernel, by decide +kernel, by decide +kernel, ?_, ?_⟩
  · intro i hi c ⟨h1, _⟩
    have : ∀ i, i < 30 → ((Server.getUser exWL.srv 0).qmemping.getD
        (C16L.ringPos Gen.QMEMPING_LEN (Server.getUser exWL.srv 0).qmempingLast i) Server.QmemEntry.zero).type = 0 := by
      decide +kernel
    rw [this i hi] at h1
    exact absurd h1 (by decide)
  · intro i hi c ⟨h1, _⟩
    have : ∀ i, i < 4 → ((Server.getUser exWL.srv 0).dnscache.getD
        (C16L.ringPos Gen.DNSCACHE_LEN (Server.getUser exWL.srv 0).dcLast i) Server.DnsCacheEntry.zero).q.type = 0 := by
      decide +kernel
    rw [this i hi] at h1
    exact absurd h1 (by decide)

/-- the held query is the ping with counter value 0 -/
theorem exHL_ping : HeldPing exPL exHL 0 :=
  ⟨by decide, by decide, ⟨8, by decide +kernel, by decide +kernel, by decide +kernel, by decide +kernel⟩, by decide +kernel⟩

theorem ex_quiescent_lazy : QuietLazy exPL exWL := by
  have hc := exWL_client
  have hcc : exWL.cs.c = exCL := by rw [hc]
  have hH : (Server.getUser exWL.srv exPL.u).q = exHL := exWL_held
  refine ⟨by rw [hc], ?_, ?_, by rw [hcc]; decide, by decide +kernel, by decide +kernel, ?_, ?_, by decide +kernel, ?_, ?_, ?_, ?_, ?_⟩
  · rw [hcc]
    exact ⟨rfl, rfl, rfl, rfl, by decide, rfl, rfl, rfl, rfl, by decide, by decide, by decide, by decide, by decide, by decide, by decide⟩
  · rw [hcc]; unfold CntOk; decide
  · refine ⟨exWL_solo, by decide +kernel, ?_, by decide +kernel, by decide +kernel⟩
    exact ⟨by decide +kernel, by decide +kernel, by decide +kernel, by decide +kernel, by decide +kernel, by decide +kernel,
      by decide +kernel, by decide +kernel, by decide +kernel⟩
  · exact ⟨by decide +kernel, by rw [hH]; decide, by rw [hH]; decide, by decide +kernel, by decide +kernel⟩
  · rw [hH]; exact ⟨rfl, rfl, by decide, rfl⟩
  · rw [hH, hcc]; rfl
  · rw [hcc]; decide +kernel
  · rw [hcc]; decide +kernel
  · rw [hH, hcc]
    right
    exact ⟨0, exHL_ping, by unfold Behind; decide, exWL_aged, exWL_paged⟩

theorem ex_quiescent_lazy_quiet : quiet 0 exWL = true := ex_quiescent_lazy.quiet

theorem ex_acceptable_lazy : UpFrameOk exPL (Server.getUser exWL.srv exPL.u).tunIp (demoFrame 9 30) ∧
    upFrags exPL ((demoFrame 9 30).length + 1) (0x5a :: demoFrame 9 30) = 2 := by
  refine ⟨⟨by decide, by decide, by unfold Codec.Bytes; decide, by decide +kernel, by decide +kernel⟩, by decide +kernel⟩

/-- the theorem applied: the 2-fragment frame arrives after exactly 5 scheduler steps, unchanged -/
example : ∃ w', runPromptCount 0 5 (step exWL (.offerC (demoFrame 9 30))) 0 = (w', 5) ∧ QuietLazy exPL w' ∧
    w'.tunS = [demoFrame 9 30] ∧ w'.tunC = [] := by
  obtain ⟨w', _, h2, h3, h4, h5⟩ := clean_path_upstream_lazy exPL_ok ex_quiescent_lazy (demoFrame 9 30) ex_acceptable_lazy.1
  have hi : tunImage (demoFrame 9 30) = demoFrame 9 30 := by decide
  have ht : exWL.tunS = [] ∧ exWL.tunC = [] := by decide +kernel
  refine ⟨w', ?_, h3, by rw [h4, hi, ht.1]; rfl, by rw [h5, ht.2]⟩
  have := h2 5 (by rw [ex_acceptable_lazy.2]; omega)
  rw [ex_acceptable_lazy.2] at this
  exact this

/-- … and a sequence of three frames -/
example : (offerAllC 0 40 exWL [demoFrame 9 4, demoFrame 9 30, demoFrame 9 10]).tunS = [demoFrame 9 4, demoFrame 9 30, demoFrame 9 10] := by
  have hok : ∀ f ∈ [demoFrame 9 4, demoFrame 9 30, demoFrame 9 10], UpFrameOk exPL (Server.getUser exWL.srv exPL.u).tunIp f := by
    intro f hf
    simp only [List.mem_cons, List.not_mem_nil, or_false] at hf
    rcases hf with rfl | rfl | rfl
    · exact ⟨by decide, by decide, by unfold Codec.Bytes; decide, by decide +kernel, by decide +kernel⟩
    · exact ex_acceptable_lazy.1
    · exact ⟨by decide, by decide, by unfold Codec.Bytes; decide, by decide +kernel, by decide +kernel⟩
  have := (up_sequence_lazy exPL_ok 40 (by omega) _ exWL ex_quiescent_lazy hok).2.1
  have ht : exWL.tunS = [] := by decide +kernel
  show (offerAllC exPL.u 40 exWL _).tunS = _
  rw [this, ht]
  decide

end Iodine.C02L
