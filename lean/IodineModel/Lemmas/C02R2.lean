import IodineModel.Lemmas.C02R1
/-
RAW UDP mode, server side (single client, `Solo`): `raw_decode` → `handle_raw_data` / `handle_raw_ping` on the slot,
`tunnel_tun` for a raw-mode user, and the whole loop iterations.
-/
namespace Iodine.C02L
open Iodine Iodine.Gen Iodine.World Iodine.Server

/-- the slot of a raw-mode session with nothing pending -/
structure RawSlot (x : Session) (now : Nat) : Prop where
  active : x.active = true
  auth : x.authenticated = true
  authRaw : x.authenticatedRaw = true
  enabled : x.disabled = false
  conn : x.conn = .rawUdp
  live : now < x.lastPkt + 60
  qfrom : x.q.from_ = clientAddr
  qid : x.q.id = 0
  qsid : x.qs.id = 0
  out : x.outpacket.len = 0
  oq : x.oqFilled = 0
  imm : x.lazy = false

/-- a server whose only session is the raw-mode session `u` of the client at `clientAddr` -/
structure RawSrv (u : Nat) (s : Srv) : Prop where
  solo : Solo u s
  slot : RawSlot (getUser s u) s.now
  ip : s.cfg.checkIp = false ∨ (getUser s u).host = clientAddr

/-- the slot at the top of the loop (live session) -/
def srvTop (x : Session) : Session := { x with qsNew := false }

/-- the slot after `handle_raw_data` + `handle_full_packet` for the compressed frame `0x5a :: f` -/
def srvUp (x : Session) (f : List Nat) (now : Nat) : Session :=
  { x with lastPkt := now, q := rawQuery clientAddr,
           inpacket := { x.inpacket with offset := 0, data := 0x5a :: f, len := 0 } }

/-- the slot when `handle_raw_data` calls `handle_full_packet` -/
def srvIn (x : Session) (f : List Nat) (now : Nat) : Session :=
  { x with lastPkt := now, q := rawQuery clientAddr,
           inpacket := { x.inpacket with offset := 0, data := 0x5a :: f, len := (0x5a :: f).length } }

/-- the slot after `handle_raw_ping` -/
def srvPing (x : Session) (now : Nat) : Session := { x with lastPkt := now, q := rawQuery clientAddr }

theorem RawSlot.top {x : Session} {now : Nat} (h : RawSlot x now) : RawSlot (srvTop x) now :=
  ⟨h.active, h.auth, h.authRaw, h.enabled, h.conn, h.live, h.qfrom, h.qid, h.qsid, h.out, h.oq, h.imm⟩

theorem RawSlot.up {x : Session} {now : Nat} (h : RawSlot x now) (f : List Nat) : RawSlot (srvUp x f now) now :=
  ⟨h.active, h.auth, h.authRaw, h.enabled, h.conn, by show now < now + 60; omega, rfl, rfl, h.qsid, h.out, h.oq, h.imm⟩

theorem RawSlot.ping {x : Session} {now : Nat} (h : RawSlot x now) : RawSlot (srvPing x now) now :=
  ⟨h.active, h.auth, h.authRaw, h.enabled, h.conn, by show now < now + 60; omega, rfl, rfl, h.qsid, h.out, h.oq, h.imm⟩

theorem topSess_raw {x : Session} {now : Nat} (h : RawSlot x now) : topSess x now = srvTop x := by
  unfold topSess srvTop
  rw [if_pos (by simp [live, h.active, h.enabled]; exact h.live)]

theorem sweepSess_raw {x : Session} (h : x.conn = .rawUdp) (u now : Nat) : sweepSess x u now = (x, []) := by
  unfold sweepSess
  rw [if_neg (by rw [h]; simp)]

/-- writing the slot of a `RawSrv` (keeping `host`) -/
theorem RawSrv.put {u : Nat} {s : Srv} (h : RawSrv u s) (y : Session) (n : Nat) (hy : RawSlot y n)
    (hh : y.host = (getUser s u).host) : RawSrv u { putUser s u y with now := n } := by
  have hg : getUser { putUser s u y with now := n } u = y := by
    rw [getUser_withNow, getUser_putUser_self _ _ _ h.solo.lt]
  refine ⟨(h.solo.putUser y).withNow n, by rw [hg]; exact hy, ?_⟩
  rw [hg, hh]
  exact h.ip

/-- the state the handlers of an iteration run on -/
theorem RawSrv.top {u : Nat} {s : Srv} (h : RawSrv u s) :
    RawSrv u { putUser s u (srvTop (getUser s u)) with now := s.now } :=
  h.put _ _ h.slot.top rfl

theorem getUser_put_now (s : Srv) (u : Nat) (y : Session) (n : Nat) (h : u < s.users.length) :
    getUser { putUser s u y with now := n } u = y := by
  rw [getUser_withNow, getUser_putUser_self _ _ _ h]

theorem putUser_put_now (s : Srv) (u : Nat) (y z : Session) (n : Nat) :
    putUser { putUser s u y with now := n } u z = { putUser s u z with now := n } := by
  rw [putUser_withNow, putUser_putUser]

/-! ### the checks -/

theorem checkAuth_raw {u : Nat} {s : Srv} (h : RawSrv u s) :
    checkAuthenticatedUserAndIp s (u : Int) (rawQuery clientAddr) = false := by
  have h1 : ¬ ((u : Int) < 0 ∨ (u : Int) ≥ (s.cfg.createdUsers : Int)) := by
    rw [h.solo.created]; have := h.solo.lt; omega
  have h2 : ¬ ((getUser s u).lastPkt + 60 < s.now) := by have := h.slot.live; omega
  unfold checkAuthenticatedUserAndIp checkUserAndIp
  simp only [h1, if_false, Int.toNat_natCast, h.slot.active, h.slot.enabled, h.slot.auth, h2, Bool.not_true, Bool.or_self,
    Bool.false_eq_true]
  rcases h.ip with hip | hip
  · simp [hip]
  · simp [hip, rawQuery, clientAddr]

/-! ### `raw_decode` -/

theorem uncompress_frame (f : List Nat) (h : f.length ≤ 65536) : uncompress (0x5a :: f) 65536 = some f := by
  simp [uncompress, h]

/-- **server, raw DATA datagram** carrying a frame that is not for the session itself: written to tun -/
theorem rawDecode_data {u : Nat} {s : Srv} (h : RawSrv u s) (hu : u < 16) (f : List Nat) (h24 : 24 ≤ f.length)
    (hlen : f.length + 5 ≤ 65536) (hdst : ipDst f ≠ (getUser s u).tunIp) :
    rawDecode s (rawFrame u 32 (0x5a :: f)) clientAddr =
      some (putUser s u (srvUp (getUser s u) f s.now), [Server.writeTun f]) := by
  obtain ⟨_, _, _, n1, n2, _, _⟩ := nibble_facts u hu
  have hl := h.solo.lt
  have hd : handleRawData s (0x5a :: f) (rawQuery clientAddr) u =
      (putUser s u (srvUp (getUser s u) f s.now), [Server.writeTun f]) := by
    unfold handleRawData
    rw [checkAuth_raw h]
    simp only [Bool.false_eq_true, if_false, h.slot.authRaw, Bool.not_true]
    rw [setUser_eq_putUser]
    show handleFullPacket (putUser s u (srvIn (getUser s u) f s.now)) u = _
    generalize hx1 : srvIn (getUser s u) f s.now = x1
    have hg : getUser (putUser s u x1) u = x1 := getUser_putUser_self _ _ _ hl
    have htk : x1.inpacket.data.take x1.inpacket.len = 0x5a :: f := by
      subst hx1
      exact List.take_of_length_le (Nat.le_refl _)
    have hns : ¬ selfAddressed (getUser (putUser s u x1) u) (putUser s u x1).now := by
      rw [hg]
      rintro ⟨out, ho, _, _, _, _, _, hd⟩
      rw [htk, uncompress_frame f (by omega)] at ho
      cases ho
      apply hdst
      rw [hd]; subst hx1; rfl
    rw [handleFullPacket_eq (h.solo.putUser x1) hns, hg, putUser_putUser]
    have hfe : fullEvs x1 = [Server.writeTun f] := by
      unfold fullEvs
      rw [htk, uncompress_frame f (by omega)]
      simp only
      rw [if_pos (by omega)]
    rw [hfe]
    subst hx1
    rfl
  unfold rawDecode
  simp only [rawFrame, List.cons_append, List.nil_append, List.length_cons, RAW_HDR_LEN, rawHeader,
    RAW_HDR_USR_MASK, RAW_HDR_CMD_MASK, RAW_HDR_CMD_DATA, RAW_HDR_CMD_PING, RAW_HDR_CMD_LOGIN]
  have h1 : ¬ (f.length + 1 + 1 + 1 + 1 + 1 < 4) := by omega
  simp [h1, n1, n2, hd]

/-- **server, raw PING datagram**: answered with a raw ping to the sender -/
theorem rawDecode_ping {u : Nat} {s : Srv} (h : RawSrv u s) (hu : u < 16) :
    rawDecode s (rawFrame u 48 []) clientAddr =
      some (putUser s u (srvPing (getUser s u) s.now), [Event.raw clientAddr (rawFrame u 48 [])]) := by
  obtain ⟨_, _, n0, _, _, n1, n2⟩ := nibble_facts u hu
  have hd : handleRawPing s (rawQuery clientAddr) u =
      (putUser s u (srvPing (getUser s u) s.now), [Event.raw clientAddr (rawFrame u 48 [])]) := by
    unfold handleRawPing
    rw [checkAuth_raw h]
    simp only [Bool.false_eq_true, if_false, h.slot.authRaw, Bool.not_true]
    rw [setUser_eq_putUser]
    unfold Server.sendRaw rawFrame
    simp only [RAW_HDR_CMD_PING, n0]
    rfl
  unfold rawDecode
  simp [rawFrame, RAW_HDR_LEN, rawHeader, RAW_HDR_USR_MASK, RAW_HDR_CMD_MASK, RAW_HDR_CMD_DATA, RAW_HDR_CMD_PING,
    RAW_HDR_CMD_LOGIN, n1, n2, hd]

/-! ### `tunnel_tun` -/

/-- **server, tun frame for the raw-mode session**: one raw datagram to the address remembered in `q`, carrying the
first 4091 bytes of the frame (`send_raw`: `packet[4096]`) -/
theorem tunnelTun_raw {u : Nat} {s : Srv} (h : RawSrv u s) (hu : u < 16) (f : List Nat) (h24 : 24 ≤ f.length)
    (hdst : ipDst f = (getUser s u).tunIp) :
    Server.tunnelTun s f = (s, [Event.raw clientAddr (rawFrame u 32 (0x5a :: f.take 4091))]) := by
  obtain ⟨_, _, n0, _, _, _, _⟩ := nibble_facts u hu
  unfold Server.tunnelTun
  rw [if_neg (by omega), if_neg (by omega), findUserByIp_solo h.solo]
  simp only
  rw [if_pos ⟨h.slot.active, h.slot.auth, by simp [h.slot.enabled], by have := h.slot.live; omega, hdst⟩]
  simp only [h.slot.conn]
  rw [if_neg (by simp)]
  unfold Server.sendRaw rawFrame
  simp only [h.slot.qfrom, n0, RAW_HDR_CMD_DATA]
  have : (Server.compress f).take (min (4096 - RAW_HDR_LEN) (Server.compress f).length) = 0x5a :: f.take 4091 := by
    unfold Server.compress
    rw [List.length_cons]
    exact take_cut f
  rw [this]
  rfl

/-! ### whole iterations -/

theorem iteration_raw_data {u : Nat} {s : Srv} (h : RawSrv u s) (hu : u < 16) (f : List Nat) (h24 : 24 ≤ f.length)
    (hlen : f.length + 5 ≤ 65536) (hdst : ipDst f ≠ (getUser s u).tunIp) :
    ∃ t, iteration s (.rawf clientAddr (rawFrame u 32 (0x5a :: f))) s.now =
      ({ putUser s u (srvUp (srvTop (getUser s u)) f s.now) with now := s.now },
       [Server.writeTun f] ++ [Event.sweep] ++ [], t) := by
  have hl := h.solo.lt
  have ht := h.top
  have hg := getUser_put_now s u (srvTop (getUser s u)) s.now hl
  have hd := rawDecode_data ht hu f h24 hlen (by rw [hg]; exact hdst)
  rw [hg, putUser_put_now] at hd
  have hit := iteration_solo h.solo (.rawf clientAddr (rawFrame u 32 (0x5a :: f))) s.now
    (srvUp (srvTop (getUser s u)) f s.now) [Server.writeTun f] (by intro g hc; cases hc) (by
      rw [topSess_raw h.slot]
      unfold dispatch
      simp only
      rw [List.take_of_length_le (by rw [rawFrame_length]; simp; omega), hd])
  rw [sweepSess_raw (h.slot.top.up f).conn] at hit
  exact ⟨_, hit⟩

theorem iteration_raw_ping {u : Nat} {s : Srv} (h : RawSrv u s) (hu : u < 16) :
    ∃ t, iteration s (.rawf clientAddr (rawFrame u 48 [])) s.now =
      ({ putUser s u (srvPing (srvTop (getUser s u)) s.now) with now := s.now },
       [Event.raw clientAddr (rawFrame u 48 [])] ++ [Event.sweep] ++ [], t) := by
  have hl := h.solo.lt
  have ht := h.top
  have hg := getUser_put_now s u (srvTop (getUser s u)) s.now hl
  have hd := rawDecode_ping ht hu
  rw [hg, putUser_put_now] at hd
  have hit := iteration_solo h.solo (.rawf clientAddr (rawFrame u 48 [])) s.now
    (srvPing (srvTop (getUser s u)) s.now) [Event.raw clientAddr (rawFrame u 48 [])] (by intro g hc; cases hc) (by
      rw [topSess_raw h.slot]
      unfold dispatch
      simp only
      rw [List.take_of_length_le (by rw [rawFrame_length]; simp), hd])
  rw [sweepSess_raw h.slot.top.ping.conn] at hit
  exact ⟨_, hit⟩

/-- tun is in the read set of the server's `select` -/
theorem tunSelS_raw {u : Nat} {s : Srv} (h : RawSrv u s) : (topOfLoop s).2.2 = true := by
  have hst := topOfLoop_state h.solo
  have e : topSess (getUser s u) s.now =
      (if live (getUser s u) s.now then { getUser s u with qsNew := false } else getUser s u) := rfl
  rw [← e, topSess_raw h.slot] at hst
  show (!allUsersWaitingToSend (topOfLoop s).1) = true
  rw [hst, allWaiting_solo (h.solo.putUser _), getUser_putUser_self _ _ _ h.solo.lt]
  have hs := h.slot.top
  have hlv : live (srvTop (getUser s u)) (putUser s u (srvTop (getUser s u))).now = true := by
    show live _ s.now = true
    simp [live, hs.active, hs.enabled]; exact hs.live
  rw [hlv]
  simp [hs.conn]

theorem iteration_raw_tun {u : Nat} {s : Srv} (h : RawSrv u s) (hu : u < 16) (f : List Nat) (h24 : 24 ≤ f.length)
    (hlen : f.length < 65536) (hdst : ipDst f = (getUser s u).tunIp) :
    ∃ t, iteration s (.tun f) s.now =
      ({ putUser s u (srvTop (getUser s u)) with now := s.now },
       [Event.raw clientAddr (rawFrame u 32 (0x5a :: f.take 4091))] ++ [Event.sweep] ++ [], t) := by
  have hl := h.solo.lt
  have ht := h.top
  have hg := getUser_put_now s u (srvTop (getUser s u)) s.now hl
  have hd := tunnelTun_raw ht hu f h24 (by rw [hg]; exact hdst)
  have hit := iteration_tun h.solo f s.now (srvTop (getUser s u)) [Event.raw clientAddr (rawFrame u 32 (0x5a :: f.take 4091))]
    (tunSelS_raw h) (by
      rw [topSess_raw h.slot, List.take_of_length_le (by omega), hd])
  rw [sweepSess_raw h.slot.top.conn] at hit
  exact ⟨_, hit⟩

end Iodine.C02L
