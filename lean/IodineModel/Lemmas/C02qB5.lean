import IodineModel.Lemmas.C02qB4
/-
C02, phase 2, sub-package "blackout" — part 5: composition witness, the links `bkW k → bkW (k+1)` for `k = 3 … 5`
(kernel-evaluated), the chains up to 5, and `giveup_runs_up_imm` applied to `exW` with four frames.
-/
namespace Iodine.C02L
open Iodine Iodine.Gen Iodine.World Iodine.C02

theorem bk_link3 : runSched blackoutEvUp 9 (step (bkW 3) (.offerC (fA 3))) = bkW 4 := by decide +kernel

/-- four give-up runs from `exW` (no further evaluation: the links composed) -/
theorem bk_chain4 : giveupRunUp [fA 0, fA 1, fA 2, fA 3] exW = bkW 4 := by
  rw [← bkW_zero]
  simp only [giveupRunUp]
  rw [bk_link0, bk_link1, bk_link2, bk_link3]

theorem bk_link4 : runSched blackoutEvUp 9 (step (bkW 4) (.offerC (fA 4))) = bkW 5 := by decide +kernel
theorem bk_link5 : runSched blackoutEvUp 9 (step (bkW 5) (.offerC (fA 5))) = bkW 6 := by decide +kernel

theorem bk_chain3 : giveupRunUp [fA 0, fA 1, fA 2] exW = bkW 3 := by
  rw [← bkW_zero]
  simp only [giveupRunUp]
  rw [bk_link0, bk_link1, bk_link2]

theorem bk_chain5 : giveupRunUp [fA 0, fA 1, fA 2, fA 3, fA 4] exW = bkW 5 := by
  rw [← bkW_zero]
  simp only [giveupRunUp]
  rw [bk_link0, bk_link1, bk_link2, bk_link3, bk_link4]

/-- `giveup_runs_up_imm` applies to `exW` and four frames: `bkW 4` is quiescent, the client FOUR sequence numbers ahead of the
server (the first value for which the next new packet falls into the server's window of "recent duplicates"), slack 17
resp. 5 -/
theorem bkW4_quiet : GaveUpN exW (bkW 4) 4 ∧ QuietImmDS exP 4 0 17 5 (bkW 4) := by
  have hok : ∀ f ∈ [fA 0, fA 1, fA 2, fA 3], f ≠ [] ∧ f.length < 65536 ∧ Codec.Bytes f := by
    intro f hf
    simp only [List.mem_cons, List.not_mem_nil, or_false] at hf
    rcases hf with rfl | rfl | rfl | rfl
    · exact fA_ok 0 (by omega)
    · exact fA_ok 1 (by omega)
    · exact fA_ok 2 (by omega)
    · exact fA_ok 3 (by omega)
  have := giveup_runs_up_imm exP_ok [fA 0, fA 1, fA 2, fA 3] hok exW_quietDS (by decide) (by decide) (by decide +kernel)
    (by decide +kernel)
  rw [bk_chain4] at this
  exact this

/-- a desynchronised state is not a `QuietImm` state: the clean-path theorems do not apply to it as they stand -/
example : ¬ QuietImm exP (bkW 4) := by
  intro h
  have := h.syncu
  revert this
  decide +kernel

end Iodine.C02L
