import IodineModel.Lemmas.SrvC04f
import IodineModel.Lemmas.C02b
/-
Helper lemmas for C05 "established sessions continue" (non-interference over runs), part 1:
the relation `Agree u s t` (two server states that coincide on slot `u`, clock and configuration), the projection
`dataOf u` of an event list to the tunnel-data answers of session `u`, and SLOT-LOCALITY of the downstream machinery:
`send_chunk_or_dataless(u)` and everything it calls read and write slot `u` (and the clock) only, so on two states
that `Agree u` they produce the same events, the same return value and states that `Agree u` again.
-/
namespace Iodine.C05N
open Iodine Iodine.Server Iodine.Gen Iodine.C04L

/-! ### Agree -/

/-- the two states have the same slot `u`, the same clock and configuration, and slot `u` exists in both -/
structure Agree (u : Nat) (s t : Srv) : Prop where
  user : getUser s u = getUser t u
  now : s.now = t.now
  cfg : s.cfg = t.cfg
  l1 : u < s.users.length
  l2 : u < t.users.length

theorem Agree.refl {u : Nat} {s : Srv} (h : u < s.users.length) : Agree u s s := ⟨rfl, rfl, rfl, h, h⟩

theorem Agree.symm {u : Nat} {s t : Srv} (h : Agree u s t) : Agree u t s :=
  ⟨h.user.symm, h.now.symm, h.cfg.symm, h.l2, h.l1⟩

theorem Agree.trans {u : Nat} {s t r : Srv} (h : Agree u s t) (k : Agree u t r) : Agree u s r :=
  ⟨h.user.trans k.user, h.now.trans k.now, h.cfg.trans k.cfg, h.l1, k.l2⟩

/-- writing slot `u` with the same value on both sides -/
theorem Agree.set {u : Nat} {s t : Srv} (h : Agree u s t) (f g : Session → Session)
    (e : f (getUser s u) = g (getUser t u)) : Agree u (setUser s u f) (setUser t u g) := by
  refine ⟨?_, h.now, h.cfg, by rw [setUser_len]; exact h.l1, by rw [setUser_len]; exact h.l2⟩
  rw [getUser_setUser_self _ _ _ h.l1, getUser_setUser_self _ _ _ h.l2, e]

theorem Agree.setf {u : Nat} {s t : Srv} (h : Agree u s t) (f : Session → Session) :
    Agree u (setUser s u f) (setUser t u f) := h.set f f (by rw [h.user])

/-- changes that spare slot `u` on either side -/
theorem Agree.frames {u : Nat} {s t s' t' : Srv} {er er' : Session → Session} {U U' : Nat → Prop}
    (h : Agree u s t) (fs : Frame er U s s') (ft : Frame er' U' t t') (hu : ¬ U u) (hu' : ¬ U' u) :
    Agree u s' t' :=
  ⟨by rw [fs.other u hu, ft.other u hu', h.user], by rw [fs.now, ft.now, h.now], by rw [fs.cfg, ft.cfg, h.cfg],
   by rw [fs.len]; exact h.l1, by rw [ft.len]; exact h.l2⟩

theorem Agree.frameL {u : Nat} {s t s' : Srv} {er : Session → Session} {U : Nat → Prop}
    (h : Agree u s t) (fs : Frame er U s s') (hu : ¬ U u) : Agree u s' t :=
  h.frames fs (Frame.refl er (fun _ => False) t) hu (fun x => x)

theorem Agree.frameR {u : Nat} {s t t' : Srv} {er : Session → Session} {U : Nat → Prop}
    (h : Agree u s t) (ft : Frame er U t t') (hu : ¬ U u) : Agree u s t' :=
  h.frames (Frame.refl er (fun _ => False) s) ft (fun x => x) hu

/-! ### the tunnel-data answers of session `u` -/

/-- is `e` an answer produced by one of the four data-path call sites of `write_dns` for session `u`? -/
def isFor (u : Nat) : Event → Bool
  | .ans _ _ _ _ _ _ (.chunk v) => v == u
  | .ans _ _ _ _ _ _ (.dupe v) => v == u
  | .ans _ _ _ _ _ _ (.cached v) => v == u
  | .ans _ _ _ _ _ _ (.qmem v) => v == u
  | _ => false

/-- the tunnel-data answers of session `u` in an event list, in order -/
def dataOf (u : Nat) (evs : List Event) : List Event := evs.filter (isFor u)

@[simp] theorem dataOf_nil (u : Nat) : dataOf u [] = [] := rfl
@[simp] theorem dataOf_append (u : Nat) (a b : List Event) : dataOf u (a ++ b) = dataOf u a ++ dataOf u b :=
  List.filter_append ..

/-- every data-path answer in `evs` belongs to a session in `U` -/
def Tg (U : Nat → Prop) (evs : List Event) : Prop := ∀ e ∈ evs, ∀ v, isFor v e = true → U v

theorem Tg.nil (U : Nat → Prop) : Tg U [] := fun _ h => by cases h
theorem Tg.append {U : Nat → Prop} {a b : List Event} (ha : Tg U a) (hb : Tg U b) : Tg U (a ++ b) := by
  intro e he
  rcases List.mem_append.1 he with h | h
  · exact ha e h
  · exact hb e h
theorem Tg.mono {U V : Nat → Prop} {a : List Event} (ha : Tg U a) (h : ∀ v, U v → V v) : Tg V a :=
  fun e he v hv => h v (ha e he v hv)
theorem Tg.ctrl (U : Nat → Prop) (q : Query) (d : List Nat) (dn : Nat) : Tg U [writeDns q d dn] := by
  intro e he v hv
  simp only [List.mem_cons, List.not_mem_nil, or_false] at he
  subst he
  cases hv
theorem Tg.single {U : Nat → Prop} {e : Event} (h : ∀ v, isFor v e = false) : Tg U [e] := by
  intro e' he v hv
  simp only [List.mem_cons, List.not_mem_nil, or_false] at he
  subst he
  rw [h v] at hv; cases hv

/-- no data-path answer of a session in `U`: the projection to a session outside `U` is empty -/
theorem Tg.dataOf_nil {U : Nat → Prop} {a : List Event} (ha : Tg U a) (u : Nat) (hu : ¬ U u) : dataOf u a = [] := by
  unfold dataOf
  rw [List.filter_eq_nil_iff]
  intro e he h
  exact hu (ha e he u h)

theorem tg_scAnswer (q : Query) (pkt : List Nat) (dn u : Nat) : Tg (· = u) (scAnswer q pkt dn u).2 := by
  intro e he v hv
  rcases scAnswer_events q pkt dn u e he with rfl | ⟨_, rfl⟩
  · simp only [isFor, beq_iff_eq] at hv; exact hv.symm
  · simp only [isFor, beq_iff_eq] at hv; exact hv.symm

/-- `send_chunk_or_dataless(u)` only produces answers for session `u` -/
theorem tg_sendChunkOrDataless (s : Srv) (u : Nat) (w : QSel) : Tg (· = u) (sendChunkOrDataless s u w).1.2 := by
  obtain ⟨pkt, dn, h⟩ := sendChunkOrDataless_events s u w
  rw [h]; exact tg_scAnswer _ _ _ _

/-! ### slot-locality of the downstream machinery -/

section Local
variable {u : Nat} {s t : Srv}

theorem agree_startNewOutpacket (h : Agree u s t) (d : List Nat) (n : Nat) :
    Agree u (startNewOutpacket s u d n) (startNewOutpacket t u d n) := by
  unfold startNewOutpacket; exact h.setf _

theorem agree_saveToOutpacketq (h : Agree u s t) (d : List Nat) (n : Nat) :
    Agree u (saveToOutpacketq s u d n).1 (saveToOutpacketq t u d n).1 := by
  unfold saveToOutpacketq
  dsimp only
  rw [h.user]
  split
  · exact h
  · exact h.setf _

theorem agree_getFromOutpacketq (h : Agree u s t) :
    Agree u (getFromOutpacketq s u).1 (getFromOutpacketq t u).1 ∧
      (getFromOutpacketq s u).2 = (getFromOutpacketq t u).2 := by
  unfold getFromOutpacketq
  dsimp only
  rw [h.user]
  split
  · exact ⟨h, rfl⟩
  · exact ⟨(agree_startNewOutpacket h _ _).setf _, rfl⟩

theorem agree_scDropResent (h : Agree u s t) : Agree u (scDropResent s u) (scDropResent t u) := by
  unfold scDropResent
  dsimp only
  rw [h.user]
  split
  · exact (agree_getFromOutpacketq (h.setf dropOut)).1
  · exact h

theorem agree_scPrepare (h : Agree u s t) : Agree u (scPrepare s u) (scPrepare t u) := by
  unfold scPrepare
  rw [h.user]
  split
  · exact h.setf _
  · exact h

theorem agree_saveToQmemPingOrData (h : Agree u s t) (q : Query) :
    Agree u (saveToQmemPingOrData s u q) (saveToQmemPingOrData t u q) := by
  unfold saveToQmemPingOrData
  dsimp only
  split
  · split
    · exact h
    · split
      · exact h
      · exact h.setf _
  · split
    · exact h
    · exact h.setf _

theorem agree_saveToDnscache (h : Agree u s t) (q : Query) (a : List Nat) :
    Agree u (saveToDnscache s u q a) (saveToDnscache t u q a) := by
  unfold saveToDnscache
  split
  · exact h
  · exact h.setf _

theorem agree_processDownstreamAck (h : Agree u s t) (a b : Int) :
    Agree u (processDownstreamAck s u a b) (processDownstreamAck t u a b) := by
  unfold processDownstreamAck
  dsimp only
  rw [h.user]
  split
  · exact h
  split
  · exact h
  split
  · exact h
  split
  · exact (agree_getFromOutpacketq ((h.setf _).setf _)).1
  · exact h.setf _

/-- **`send_chunk_or_dataless` is slot-local**: same slot `u`, same clock ⇒ same events, same return value, and the
resulting states agree on slot `u` again -/
theorem agree_sendChunkOrDataless (h : Agree u s t) (w : QSel) :
    Agree u (sendChunkOrDataless s u w).1.1 (sendChunkOrDataless t u w).1.1 ∧
      (sendChunkOrDataless s u w).1.2 = (sendChunkOrDataless t u w).1.2 ∧
      (sendChunkOrDataless s u w).2 = (sendChunkOrDataless t u w).2 := by
  have h1 : Agree u (scPrepare (scDropResent s u) u) (scPrepare (scDropResent t u) u) :=
    agree_scPrepare (agree_scDropResent h)
  unfold sendChunkOrDataless
  dsimp only
  rw [h1.user]
  have h4 : ∀ qq q2 pk, Agree u
      (setUser (saveToDnscache (saveToQmemPingOrData (scPrepare (scDropResent s u) u) u q2) u q2 pk) u
        fun y => w.set y qq)
      (setUser (saveToDnscache (saveToQmemPingOrData (scPrepare (scDropResent t u) u) u q2) u q2 pk) u
        fun y => w.set y qq) :=
    fun qq q2 pk => (agree_saveToDnscache (agree_saveToQmemPingOrData h1 q2) q2 pk).setf _
  by_cases hc : scDatalen (getUser (scPrepare (scDropResent t u) u) u) > 0 ∧
      scDatalen (getUser (scPrepare (scDropResent t u) u) u) = (getUser (scPrepare (scDropResent t u) u) u).outpacket.len
  · simp only [if_pos hc]
    exact ⟨(agree_getFromOutpacketq ((h4 _ _ _).setf dropOut)).1, trivial,
      (agree_getFromOutpacketq ((h4 _ _ _).setf dropOut)).2⟩
  · simp only [if_neg hc]
    exact ⟨h4 _ _ _, trivial, trivial⟩

end Local

end Iodine.C05N
