/- Hex helpers for the line protocol of the driver. -/
namespace Iodine.Hex

def hexDigit (n : Nat) : Char := "0123456789abcdef".toList.getD n '0'

def toHex (d : List Nat) : String :=
  if d.isEmpty then "-" else
  String.ofList (d.flatMap (fun b => [hexDigit (b / 16 % 16), hexDigit (b % 16)]))

def hexVal (c : Char) : Option Nat :=
  if '0' ≤ c ∧ c ≤ '9' then some (c.toNat - '0'.toNat)
  else if 'a' ≤ c ∧ c ≤ 'f' then some (c.toNat - 'a'.toNat + 10)
  else if 'A' ≤ c ∧ c ≤ 'F' then some (c.toNat - 'A'.toNat + 10)
  else none

def ofHexChars : List Char → Option (List Nat)
  | [] => some []
  | a :: b :: rest => do
    let x ← hexVal a
    let y ← hexVal b
    let r ← ofHexChars rest
    pure ((16 * x + y) :: r)
  | _ => none

/-- "-" is the empty string. -/
def ofHex (s : String) : Option (List Nat) :=
  if s == "-" then some [] else ofHexChars s.toList

end Iodine.Hex
