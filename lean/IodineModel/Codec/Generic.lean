import IodineModel.Bits
/-
Generic model of iodine's BaseN codecs (`base32.c`, `base64.c`, `base128.c`; `base64u.c` is
`base64.c` with another table).  All of them are the same bit-stream coder: the input bytes
are read most-significant-bit first, cut into groups of `k` bits (k = 5, 6, 7), the last
group padded with zero bits, and each group is mapped through a 2^k-entry table.

What the C encoders do when the output capacity is too small (the "previous char is
useless" back-off) is reproduced by `enc`; the decoders' three stop conditions
(capacity, `slen`, NUL) by `dec`.  The unrolled C loops are tied to these closed forms by
the correspondence check (see DESIGN.md §4 C07), which is *complete* for the per-character
expressions: each output character depends on at most two adjacent input bytes and the
position in the block, and all (position, byte, byte) triples are enumerated.
-/
namespace Iodine.Codec

structure Codec where
  /-- bits per encoded character -/
  k : Nat
  /-- the alphabet `cbN[]` (generated from the source) -/
  tbl : List Nat
  /-- the reverse table as `baseN_reverse_init` fills it -/
  rev : Nat → Nat

/-- `memset(rev, 0, 256)` followed by the writes `rev[c] = i` in program order:
the last write to a cell wins, untouched cells stay 0. -/
def mkRev (writes : List (Nat × Nat)) (c : Nat) : Nat :=
  match writes.reverse.find? (fun w => w.1 == c) with
  | some w => w.2
  | none => 0

/-- the writes of `for (i...) rev[tbl[i]] = i` -/
def revWrites (tbl : List Nat) : List (Nat × Nat) := tbl.zipIdx

def toBits (d : List Nat) : List Bool := d.flatMap (bitsBE 8)

/-- number of characters needed for `n` bytes: ⌈8n/k⌉ -/
def nchars (k n : Nat) : Nat := (8 * n + k - 1) / k

/-- the input bit stream padded with zero bits to a whole number of characters -/
def padded (k : Nat) (d : List Nat) : List Bool :=
  toBits d ++ List.replicate (k * nchars k d.length - 8 * d.length) false

/-- the k-bit group values of the full encoding -/
def encVals (k : Nat) (d : List Nat) : List Nat :=
  (chunksN k (nchars k d.length) (padded k d)).map ofBitsBE

def lookup (c : Codec) (v : Nat) : Nat := c.tbl.getD v 0

/-- encoding with unlimited capacity -/
def encFull (c : Codec) (d : List Nat) : List Nat := (encVals c.k d).map (lookup c)

structure EncResult where
  /-- characters left in the buffer before the terminating NUL (the return value counts them) -/
  chars : List Nat
  /-- what `*buflen` is set to: input bytes consumed -/
  used : Nat
  /-- highest buffer index written, plus one (includes the dropped character and the NUL) -/
  written : Nat
  deriving Repr, DecidableEq

/-- `baseN_encode(buf, &cap, d, |d|)`.  When `cap` characters are not enough the loop has
written `cap` characters; if the last of them does not complete an input byte it is dropped
("previous char is useless"). -/
def enc (c : Codec) (cap : Nat) (d : List Nat) : EncResult :=
  let m := nchars c.k d.length
  if m ≤ cap then ⟨encFull c d, d.length, m + 1⟩
  else
    let j := if c.k * (cap - 1) / 8 < c.k * cap / 8 then cap else cap - 1
    ⟨(encFull c d).take j, c.k * j / 8, max cap (j + 1)⟩

/-- the part of `str` the decoder looks at: at most `slen` characters, up to the first NUL -/
def cstr (slen : Nat) (s : List Nat) : List Nat := (s.take slen).takeWhile (fun ch => ch != 0)

def decBits (c : Codec) (s : List Nat) : List Bool := s.flatMap (fun ch => bitsBE c.k (c.rev ch))

/-- all whole bytes contained in the characters `s` -/
def decAll (c : Codec) (s : List Nat) : List Nat :=
  let b := decBits c s
  (chunksN 8 (b.length / 8) b).map ofBitsBE

/-- `baseN_decode(buf, &cap, str, slen)` -/
def dec (c : Codec) (cap slen : Nat) (s : List Nat) : List Nat := (decAll c (cstr slen s)).take cap

/-- Successive chunks, as the senders use the encoder: each call gets the rest of the data. -/
def encChunks (c : Codec) : List Nat → List Nat → List (List Nat) × List Nat
  | [], d => ([], d)
  | cap :: caps, d =>
    let r := enc c cap d
    let (cs, rest) := encChunks c caps (d.drop r.used)
    (r.chars :: cs, rest)

/-- Well-formedness of a codec instance; every clause is decidable on the generated tables. -/
structure WF (c : Codec) : Prop where
  k_ok : c.k = 5 ∨ c.k = 6 ∨ c.k = 7
  len : c.tbl.length = 2 ^ c.k
  rev_tbl : ∀ i, i < 2 ^ c.k → c.rev (lookup c i) = i
  nonzero : ∀ i, i < 2 ^ c.k → lookup c i ≠ 0

def Bytes (d : List Nat) : Prop := ∀ b ∈ d, b < 256

end Iodine.Codec
