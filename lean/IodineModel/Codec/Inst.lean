import IodineModel.Gen.Tables
import IodineModel.Codec.Generic
/-
The four codec instances, built from the tables generated out of the current source.
-/
namespace Iodine.Codec
open Iodine.Gen

/-- `base32_reverse_init`: per index first the lower-case, then the upper-case character. -/
def rev32Writes : List (Nat × Nat) :=
  (cb32.zip cb32u).zipIdx.flatMap (fun ((lo, up), i) => [(lo, i), (up, i)])

def b32 : Codec := { k := 5, tbl := cb32, rev := mkRev rev32Writes }
def b64 : Codec := { k := 6, tbl := cb64, rev := mkRev (revWrites cb64) }
def b64u : Codec := { k := 6, tbl := cb64u, rev := mkRev (revWrites cb64u) }
def b128 : Codec := { k := 7, tbl := cb128, rev := mkRev (revWrites cb128) }

def byName : String → Option Codec
  | "b32" => some b32
  | "b64" => some b64
  | "b64u" => some b64u
  | "b128" => some b128
  | _ => none

end Iodine.Codec
