import IodineModel.Bits
/-
Model of iodine's login hash: src/login.c `login_calculate` on top of src/md5.c
(L. Peter Deutsch's RFC 1321 MD5).

All 32-bit quantities are `Nat`s kept below `2^32` by explicit `% 2^32`; bytes are
`Nat`s below 256.  `md5` is executable (a 64-byte block costs 64 small-`Nat` steps).
-/
namespace Iodine.Login

/-! ### RFC 1321 MD5 -/

/-- RFC 1321 §3.4 table T[1..64] (`floor(2^32 * |sin i|)`), the literal constants of the RFC
(and of md5.c's `T1 … T64`). -/
def K : List Nat := [
  0xd76aa478, 0xe8c7b756, 0x242070db, 0xc1bdceee,
  0xf57c0faf, 0x4787c62a, 0xa8304613, 0xfd469501,
  0x698098d8, 0x8b44f7af, 0xffff5bb1, 0x895cd7be,
  0x6b901122, 0xfd987193, 0xa679438e, 0x49b40821,
  0xf61e2562, 0xc040b340, 0x265e5a51, 0xe9b6c7aa,
  0xd62f105d, 0x02441453, 0xd8a1e681, 0xe7d3fbc8,
  0x21e1cde6, 0xc33707d6, 0xf4d50d87, 0x455a14ed,
  0xa9e3e905, 0xfcefa3f8, 0x676f02d9, 0x8d2a4c8a,
  0xfffa3942, 0x8771f681, 0x6d9d6122, 0xfde5380c,
  0xa4beea44, 0x4bdecfa9, 0xf6bb4b60, 0xbebfbc70,
  0x289b7ec6, 0xeaa127fa, 0xd4ef3085, 0x04881d05,
  0xd9d4d039, 0xe6db99e5, 0x1fa27cf8, 0xc4ac5665,
  0xf4292244, 0x432aff97, 0xab9423a7, 0xfc93a039,
  0x655b59c3, 0x8f0ccc92, 0xffeff47d, 0x85845dd1,
  0x6fa87e4f, 0xfe2ce6e0, 0xa3014314, 0x4e0811a1,
  0xf7537e82, 0xbd3af235, 0x2ad7d2bb, 0xeb86d391]

/-- Per-step left-rotation amounts (RFC 1321 §3.4, rounds 1-4). -/
def S : List Nat := [
  7, 12, 17, 22, 7, 12, 17, 22, 7, 12, 17, 22, 7, 12, 17, 22,
  5,  9, 14, 20, 5,  9, 14, 20, 5,  9, 14, 20, 5,  9, 14, 20,
  4, 11, 16, 23, 4, 11, 16, 23, 4, 11, 16, 23, 4, 11, 16, 23,
  6, 10, 15, 21, 6, 10, 15, 21, 6, 10, 15, 21, 6, 10, 15, 21]

/-- 32-bit complement. -/
def not32 (x : Nat) : Nat := (x % 2 ^ 32) ^^^ 0xffffffff

/-- 32-bit rotate left by `n` (`0 < n < 32`). -/
def rotl (x n : Nat) : Nat :=
  let x := x % 2 ^ 32
  ((x <<< n) % 2 ^ 32) ||| (x >>> (32 - n))

/-- Little-endian 32-bit load of (up to) four bytes. -/
def loadLE : List Nat → Nat
  | [] => 0
  | b :: bs => (b % 256 + 256 * loadLE bs) % 2 ^ 32

/-- Little-endian store of a 32-bit value. -/
def storeLE (x : Nat) : List Nat :=
  [x % 256, x / 2 ^ 8 % 256, x / 2 ^ 16 % 256, x / 2 ^ 24 % 256]

structure St where
  a : Nat
  b : Nat
  c : Nat
  d : Nat

/-- RFC 1321 §3.3 initial chaining value. -/
def init : St := ⟨0x67452301, 0xefcdab89, 0x98badcfe, 0x10325476⟩

/-- Step `i` (0-based, `i < 64`) of the compression function on message words `X`. -/
def step (X : List Nat) (st : St) (i : Nat) : St :=
  let f :=
    if i < 16 then (st.b &&& st.c) ||| (not32 st.b &&& st.d)          -- F
    else if i < 32 then (st.b &&& st.d) ||| (st.c &&& not32 st.d)     -- G
    else if i < 48 then st.b ^^^ st.c ^^^ st.d                        -- H
    else st.c ^^^ (st.b ||| not32 st.d)                               -- I
  let g :=
    if i < 16 then i
    else if i < 32 then (5 * i + 1) % 16
    else if i < 48 then (3 * i + 5) % 16
    else (7 * i) % 16
  let t := (st.a + f + K.getD i 0 + X.getD g 0) % 2 ^ 32
  ⟨st.d, (st.b + rotl t (S.getD i 0)) % 2 ^ 32, st.b, st.c⟩

/-- `md5_process`: one 64-byte block. -/
def processBlock (st : St) (blk : List Nat) : St :=
  let X := (chunksN 4 16 blk).map loadLE
  let r := (List.range 64).foldl (step X) st
  ⟨(st.a + r.a) % 2 ^ 32, (st.b + r.b) % 2 ^ 32, (st.c + r.c) % 2 ^ 32, (st.d + r.d) % 2 ^ 32⟩

/-- RFC 1321 §3.1/3.2: a 1 bit, zero bits up to 56 mod 64 bytes, then the bit length as
a 64-bit little-endian number. -/
def pad (msg : List Nat) : List Nat :=
  let n := msg.length
  let bits := (8 * n) % 2 ^ 64
  msg ++ [0x80] ++ List.replicate ((55 + 64 - n % 64) % 64) 0 ++
    storeLE (bits % 2 ^ 32) ++ storeLE (bits / 2 ^ 32)

/-- MD5 digest (16 bytes) of a byte string (bytes are taken `% 256`). -/
def md5 (msg : List Nat) : List Nat :=
  let p := pad (msg.map (· % 256))
  let st := (chunksN 64 (p.length / 64) p).foldl processBlock init
  storeLE st.a ++ storeLE st.b ++ storeLE st.c ++ storeLE st.d

/-! ### login.c -/

/-- `ntohl`/`htonl` on a little-endian host: reverse the four bytes of a 32-bit value. -/
def bswap32 (x : Nat) : Nat :=
  (x % 256) * 2 ^ 24 + (x / 2 ^ 8 % 256) * 2 ^ 16 + (x / 2 ^ 16 % 256) * 2 ^ 8 + x / 2 ^ 24 % 256

/-- One iteration of the loop: `k = ntohl(*ix); k ^= seed; *ix++ = htonl(k);` on the four bytes
`w` in memory (little-endian host, `seed < 2^32`). -/
def xorWord (seed : Nat) (w : List Nat) : List Nat :=
  let k := bswap32 (loadLE w)
  let k := k ^^^ seed
  storeLE (bswap32 k)

/-- The 32-byte buffer `temp` after the loop. -/
def cBlock (temp : List Nat) (seed : Nat) : List Nat :=
  (chunksN 4 8 temp).flatMap (xorWord seed)

/-- `login_calculate(buf, 16, pass, seed)`: `memcpy(temp, pass, 32)` (the callers' `pass` is a
zero-filled `char[33]`, so a shorter list is zero-padded here), eight word-wise xors, MD5.
`seed` is a C `int`; only its 32-bit pattern matters. -/
def loginCalcC (pass32 : List Nat) (seed : Nat) : List Nat :=
  let temp := (pass32 ++ List.replicate 32 0).take 32
  md5 (cBlock temp (seed % 2 ^ 32))

end Iodine.Login
