import IodineModel.Gen.Tables
/-
Model of iodined's DNS-forwarding bookkeeping (`-b port`):
  src/fw_query.c   fw_query_init / fw_query_put / fw_query_get
  src/iodined.c    forward_query / tunnel_bind

The ring `fwq[FW_QUERY_CACHE_SIZE]` remembers (asker address, query id) for forwarded queries;
`fwq_ix` is the next slot to overwrite.  Nothing is ever removed; a lookup returns the FIRST
slot (lowest index) whose id equals the id of the reply.  Slots never written since
`fw_query_init` are all-zero: id 0, address all zero, addrlen 0.

Abstraction: an asker address is a `Nat` (the correspondence harness numbers socket addresses
1, 2, …); `0` is the null address of a never-written slot.  Ids are `Nat` (C: unsigned short).
-/
namespace Iodine.FwQuery

/-- FW_QUERY_CACHE_SIZE, from the generated tables. -/
abbrev SIZE : Nat := Iodine.Gen.FW_QUERY_CACHE_SIZE

abbrev Addr := Nat

/-- `fwq[]` as a list of (addr, id), and `fwq_ix`. -/
structure Fw where
  slots : List (Addr × Nat)
  ix : Nat
deriving DecidableEq, Repr

/-- `fw_query_init`: memset 0, ix 0. -/
def init : Fw := ⟨List.replicate SIZE (0, 0), 0⟩

/-- `fw_query_put`: overwrite slot `ix`; `++ix; if (ix >= SIZE) ix = 0`. -/
def put (s : Fw) (addr : Addr) (id : Nat) : Fw :=
  ⟨s.slots.set s.ix (addr, id), if s.ix + 1 ≥ SIZE then 0 else s.ix + 1⟩

/-- `fw_query_get`: index of the first slot holding `id` (the C returns a pointer to it). -/
def get (s : Fw) (id : Nat) : Option Nat :=
  s.slots.findIdx? (fun p => p.2 == id)

/-- the (addr, id) stored in slot `j` -/
def slot (s : Fw) (j : Nat) : Addr × Nat := s.slots.getD j (0, 0)

/-- What arrives: a query for a name outside the tunnel domain on the DNS socket
(`tunnel_dns` → `forward_query`), or a packet on the bind socket (`tunnel_bind`) whose
`dns_get_id` is `id` (0 for packets shorter than a DNS header). -/
inductive Ev where
  | query (addr : Addr) (id : Nat)
  | reply (id : Nat) (bytes : List Nat)
deriving DecidableEq, Repr

/-- What is sent: the re-encoded query (same id) to 127.0.0.1:bind_port, or the reply bytes,
unchanged, to the remembered address. -/
inductive Out where
  | forward (id : Nat)
  | toAsker (addr : Addr) (bytes : List Nat)
deriving DecidableEq, Repr

def step (s : Fw) : Ev → Fw × List Out
  | .query addr id => (put s addr id, [.forward id])
  | .reply id bytes =>
    match get s id with
    | some j => (s, [.toAsker (slot s j).1 bytes])
    | none => (s, [])

/-- Run from a given state, accumulating the outputs. -/
def runFrom (s : Fw) (acc : List Out) (evs : List Ev) : Fw × List Out :=
  evs.foldl (fun st e => ((step st.1 e).1, st.2 ++ (step st.1 e).2)) (s, acc)

/-- Run from `fw_query_init`. -/
def run (evs : List Ev) : Fw × List Out := runFrom init [] evs

end Iodine.FwQuery
