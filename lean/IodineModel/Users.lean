import IodineModel.Gen.Tables
/-
Model of the tunnel address pool of iodined (/repo/src/user.c: `init_users`,
`find_user_by_ip`, `find_available_user`).

Addresses.  The C keeps addresses as `in_addr_t`, i.e. in NETWORK byte order inside a 32-bit
integer of a little-endian machine.  The model stores the HOST-order value
`a = o1*2^24 + o2*2^16 + o3*2^8 + o4 < 2^32` of the dotted quad `o1.o2.o3.o4`.  Under that
change of representation
  * `&`, `==` are unchanged (bytewise / injective),
  * `htonl(netmask)` is the mask whose host-order value is `netmask`,
  * `x + inet_addr("0.0.0.k")` (k < 256) adds `k * 2^24` to the little-endian word modulo
    `2^32`: it adds `k` to the LAST octet modulo 256 and nothing carries into the other
    three octets.  This is `addLastOctet`; it is NOT `(a + k) % 2^32`.
-/
namespace Iodine.Users
open Iodine

/-- `ipstart.s_addr + inet_addr("0.0.0.k")` on a little-endian machine, in host-order terms:
the last octet is incremented modulo 256, the carry out of the top byte of the machine word
is lost.  (Faithful for `k < 256`; `inet_addr("0.0.0.k")` fails for larger `k`.) -/
def addLastOctet (a k : Nat) : Nat := (a / 256) * 256 + (a % 256 + k) % 256

/-- `for (i = 0; i < netbits; i++) netmask = (netmask << 1) | 1; netmask <<= (32 - netbits);`
in uint32 arithmetic.  (`netbits = 0` shifts by 32, undefined in C; the total model gives 0.
The server only allows 8..30.) -/
def netmask (netbits : Nat) : Nat := ((2 ^ netbits - 1) % 2 ^ 32 * 2 ^ (32 - netbits)) % 2 ^ 32

/-- `maxusers = (1 << (32-netbits)) - 3` (truncated at 0; the C value is negative for
netbits ≥ 31, outside the allowed range). -/
def maxUsers (netbits : Nat) : Nat := 2 ^ (32 - netbits) - 3

/-- `usercount = MIN(maxusers, USERS)` -/
def userCount (netbits : Nat) : Nat := min (maxUsers netbits) Gen.USERS

/-- The body of the `for (i = 0; i < usercount; i++)` loop of `init_users`; `cnt` is the number
of iterations still to run, `i` the loop counter and `skip` the C variable of that name. -/
def initLoop (myIp ipstart : Nat) : Nat → Nat → Nat → List Nat
  | 0, _, _ => []
  | cnt + 1, i, skip =>
    let ip := addLastOctet ipstart (i + skip + 1)
    if ip = myIp ∧ skip = 0 then
      -- "This IP was taken by iodined"
      let skip' := skip + 1
      let ip' := addLastOctet ipstart (i + skip' + 1)
      ip' :: initLoop myIp ipstart cnt (i + 1) skip'
    else
      ip :: initLoop myIp ipstart cnt (i + 1) skip

/-- `init_users(my_ip, netbits)`: the `tun_ip` of every slot, in slot order (host order). -/
def initUsers (myIp : Nat) (netbits : Nat) : List Nat :=
  let ipstart := myIp &&& netmask netbits
  initLoop myIp ipstart (userCount netbits) 0 0

/-- The fields of `struct tun_user` that the pool functions read or write. -/
structure Slot where
  tunIp : Nat
  active : Bool
  authenticated : Bool
  disabled : Bool
  lastPkt : Nat
deriving Repr, DecidableEq

/-- loop of `find_user_by_ip`, `i` = index of the head of the remaining slots -/
def findUserByIpFrom (now ip : Nat) : List Slot → Nat → Option Nat
  | [], _ => none
  | s :: rest, i =>
    if s.active ∧ s.authenticated ∧ ¬ s.disabled ∧ s.lastPkt + 60 > now ∧ ip = s.tunIp then
      some i
    else findUserByIpFrom now ip rest (i + 1)

/-- `find_user_by_ip(ip)` with `time(NULL) = now` -/
def findUserByIp (slots : List Slot) (now : Nat) (ip : Nat) : Option Nat :=
  findUserByIpFrom now ip slots 0

/-- what `find_available_user` writes into the slot it hands out -/
def Slot.claim (s : Slot) (now : Nat) : Slot :=
  { s with active := true, authenticated := false, lastPkt := now }

/-- loop of `find_available_user` -/
def findAvailableFrom (now : Nat) : List Slot → Nat → Option Nat × List Slot
  | [], _ => (none, [])
  | s :: rest, i =>
    if (¬ s.active ∨ s.lastPkt + 60 < now) ∧ ¬ s.disabled then
      (some i, s.claim now :: rest)
    else
      let r := findAvailableFrom now rest (i + 1)
      (r.1, s :: r.2)

/-- `find_available_user()` with `time(NULL) = now`: result and the updated slot table -/
def findAvailableUser (slots : List Slot) (now : Nat) : Option Nat × List Slot :=
  findAvailableFrom now slots 0

end Iodine.Users
