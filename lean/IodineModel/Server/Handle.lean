import IodineModel.Server.State
import IodineModel.Common
import IodineModel.Encoding
import IodineModel.Codec.Inst
import IodineModel.Login
/-
Model of the request handlers of /repo/src/iodined.c (check_user_and_ip … raw_decode) and of the slot
functions of /repo/src/user.c.  One Lean function per C function, same exits in the same order.
Every function is total and returns the new state plus the list of output events it produced.

Conventions
* a C "check" returning non-zero for "rejected" is a `Bool` that is `true` for rejected;
* `userid` is an `Int` where the C value can be negative (`userid = unpacked[0]`, a plain `char`);
* `time(NULL)` is `s.now`; `rand()` is `popRand`;
* `dns_fd` arguments are dropped: the descriptor only selects the socket of the `sendto` that
  follows an `ans` event (`tx`, not modelled at this level).
-/
namespace Iodine.Server
open Iodine Iodine.Gen

/-! ### small helpers -/

def ascii (s : String) : List Nat := s.toList.map Char.toNat

/-- big-endian value of a byte list -/
def beVal : List Nat → Nat
  | [] => 0
  | b :: bs => (b % 256) * 256 ^ bs.length + beVal bs

/-- the `n` big-endian bytes of `v` -/
def beBytes : Nat → Nat → List Nat
  | 0, _ => []
  | n + 1, v => (v / 256 ^ n % 256) :: beBytes n v

/-- `inet_ntoa` of a host-order address -/
def ipStr (a : Nat) : List Nat :=
  ascii s!"{a / 2 ^ 24 % 256}.{a / 2 ^ 16 % 256}.{a / 2 ^ 8 % 256}.{a % 256}"

/-- `b32_8to5(c)` = `rev32[(unsigned char) c]` -/
def b32_8to5 (c : Nat) : Nat := Codec.b32.rev (c % 256)

def Enc.codec : Enc → Codec.Codec
  | .b32 => Codec.b32
  | .b64 => Codec.b64
  | .b64u => Codec.b64u
  | .b128 => Codec.b128

/-- `enc->name` -/
def Enc.cname : Enc → List Nat
  | .b32 => ascii "Base32"
  | .b64 => ascii "Base64"
  | .b64u => ascii "Base64u"
  | .b128 => ascii "Base128"

def chT : Nat := 84   -- 'T'

/-- THE `write_dns(fd, q, data, datalen, downenc)` -/
def writeDns (q : Query) (data : List Nat) (downenc : Nat) (tag : Tag := .ctrl) : Event :=
  Event.ans q.from_ q.id q.type downenc q.name data tag

/-- which of the two stored queries of a user a pointer points to -/
inductive QSel where
  | q | qs
deriving DecidableEq, Repr

def QSel.get : QSel → Session → Query
  | .q, x => x.q
  | .qs, x => x.qs

def QSel.set : QSel → Session → Query → Session
  | .q, x, v => { x with q := v }
  | .qs, x, v => { x with qs := v }

/-! ### user.c -/

def toSlot (x : Session) : Users.Slot := ⟨x.tunIp, x.active, x.authenticated, x.disabled, x.lastPkt⟩

/-- `find_user_by_ip(ip)` (the loop is the one modelled in `Users.lean`) -/
def findUserByIp (s : Srv) (ip : Nat) : Option Nat :=
  Users.findUserByIp (s.users.map toSlot) s.now ip

/-- what `find_available_user` writes into the slot it hands out -/
def claim (now : Nat) (x : Session) : Session :=
  { x with active := true, authenticated := false, authenticatedRaw := false, optionsLocked := false,
           lastPkt := now, fragsize := 4096, conn := .dnsNull }

/-- `find_available_user()` -/
def findAvailableUser (s : Srv) : Option Nat × Srv :=
  match (Users.findAvailableUser (s.users.map toSlot) s.now).1 with
  | some u => (some u, setUser s u (claim s.now))
  | none => (none, s)

/-- the condition `active && !disabled && last_pkt + 60 > time(NULL)` used by the loops -/
def live (x : Session) (now : Nat) : Bool := x.active && !x.disabled && decide (x.lastPkt + 60 > now)

/-- `all_users_waiting_to_send()` -/
def allUsersWaitingToSend (s : Srv) : Bool :=
  !(s.users.any fun x =>
      live x s.now && (x.conn == .rawUdp || (x.conn == .dnsNull && decide (x.oqFilled < 1))))

/-- `user_switch_codec(userid, enc)` -/
def userSwitchCodec (s : Srv) (u : Nat) (e : Enc) : Srv :=
  if u ≥ usercount s then s else setUser s u fun x => { x with encoder := e }

/-- `user_set_conn_type(userid, c)` (`c` is always a legal enumerator in the callers) -/
def userSetConnType (s : Srv) (u : Nat) (c : Conn) : Srv :=
  if u ≥ usercount s then s else setUser s u fun x => { x with conn := c }

/-! ### checks -/

/-- `check_user_and_ip(userid, q)`; `true` = rejected -/
def checkUserAndIp (s : Srv) (userid : Int) (q : Query) : Bool :=
  if userid < 0 ∨ userid ≥ (s.cfg.createdUsers : Int) then true
  else
    let x := getUser s userid.toNat
    if !x.active || x.disabled then true
    else if x.lastPkt + 60 < s.now then true
    else if !s.cfg.checkIp then false
    else if q.from_.fam ≠ x.host.fam then true
    else if q.from_.fam = 4 then decide (x.host.ip ≠ q.from_.ip)
    else if q.from_.fam = 6 then decide (x.host.ip ≠ q.from_.ip)
    else true

/-- `check_authenticated_user_and_ip` -/
def checkAuthenticatedUserAndIp (s : Srv) (userid : Int) (q : Query) : Bool :=
  if checkUserAndIp s userid q then true
  else if !(getUser s userid.toNat).authenticated then true
  else false

/-- `check_authenticated_user_and_ip_and_options`: the options lock is only looked at when
`check_ip` is off -/
def checkAuthenticatedUserAndIpAndOptions (s : Srv) (userid : Int) (q : Query) : Bool :=
  let res := checkAuthenticatedUserAndIp s userid q
  if res || s.cfg.checkIp then res
  else if (getUser s userid.toNat).optionsLocked then true
  else false

/-! ### raw frames, outpacket, outpacket queue -/

/-- `send_raw(fd, buf, buflen, user, cmd, q)` -/
def sendRaw (buf : List Nat) (buflen : Nat) (user cmd : Nat) (q : Query) : Event :=
  let len := min (4096 - RAW_HDR_LEN) buflen
  Event.raw q.from_ (rawHeader.take 3 ++ [cmd ||| (user &&& 15)] ++ buf.take len)

/-- `start_new_outpacket(userid, data, datalen)` -/
def startNewOutpacket (s : Srv) (u : Nat) (data : List Nat) (datalen : Nat) : Srv :=
  let n := min datalen PACKET_DATA_SIZE
  setUser s u fun x =>
    { x with outpacket := { x.outpacket with data := data.take n, len := n, offset := 0, sentlen := 0,
                                             seqno := (x.outpacket.seqno + 1) % 8, fragment := 0 },
             outfragresent := 0 }

/-- `save_to_outpacketq(userid, data, datalen)`; `true` = stored -/
def saveToOutpacketq (s : Srv) (u : Nat) (data : List Nat) (datalen : Nat) : Srv × Bool :=
  let x := getUser s u
  if x.oqFilled ≥ OUTPACKETQ_LEN then (s, false)
  else
    let fill0 := x.oqNext + x.oqFilled
    let fill := if fill0 ≥ OUTPACKETQ_LEN then fill0 - OUTPACKETQ_LEN else fill0
    let n := min datalen PACKET_DATA_SIZE
    (setUser s u fun x =>
      { x with outpacketq := x.outpacketq.modify fill (fun p => { p with data := data.take n, len := n }),
               oqFilled := x.oqFilled + 1 }, true)

/-- `get_from_outpacketq(userid)`; `true` = a new outpacket was started -/
def getFromOutpacketq (s : Srv) (u : Nat) : Srv × Bool :=
  let x := getUser s u
  if x.oqFilled = 0 then (s, false)
  else
    let use := x.oqNext
    let p := x.outpacketq.getD use Packet.zero
    let s1 := startNewOutpacket s u p.data p.len
    let use' := if use + 1 ≥ OUTPACKETQ_LEN then 0 else use + 1
    (setUser s1 u fun x => { x with oqNext := use', oqFilled := x.oqFilled - 1 }, true)

/-! ### dnscache and qmem -/

/-- `save_to_dnscache(userid, q, answer, answerlen)` -/
def saveToDnscache (s : Srv) (u : Nat) (q : Query) (answer : List Nat) : Srv :=
  if answer.length > DNSCACHE_ANSWER_SIZE then s
  else setUser s u fun x =>
    let fill := if x.dcLast + 1 ≥ DNSCACHE_LEN then 0 else x.dcLast + 1
    { x with dnscache := x.dnscache.set fill ⟨q, answer, answer.length⟩, dcLast := fill }

/-- the `for` loop of `answer_from_dnscache`: `n` iterations left, loop counter `i` -/
def dnscacheFind (x : Session) (q : Query) : Nat → Nat → Option DnsCacheEntry
  | 0, _ => none
  | n + 1, i =>
    let use := if x.dcLast < i then x.dcLast + DNSCACHE_LEN - i else x.dcLast - i
    let e := x.dnscache.getD use DnsCacheEntry.zero
    if e.q.id = 0 then dnscacheFind x q n (i + 1)
    else if e.answerlen = 0 then dnscacheFind x q n (i + 1)
    else if e.q.type ≠ q.type ∨ e.q.name ≠ q.name then dnscacheFind x q n (i + 1)
    else some e

/-- `answer_from_dnscache(dns_fd, userid, q)`: the answer event if the query is in the cache -/
def answerFromDnscache (s : Srv) (u : Nat) (q : Query) : Option Event :=
  let x := getUser s u
  match dnscacheFind x q DNSCACHE_LEN 0 with
  | some e => some (writeDns q (e.answer.take e.answerlen) x.downenc (.cached u))
  | none => none

/-- `save_to_qmem(cmc, type, len, &lastfilled, cmc_to_add, type_to_add)` -/
def saveToQmem (mem : List QmemEntry) (last len : Nat) (cmc : List Nat) (type : Nat) :
    List QmemEntry × Nat :=
  let fill := if last + 1 ≥ len then 0 else last + 1
  (mem.set fill ⟨cmc, type⟩, fill)

/-- the four header characters `q->name[1..4]`, upper case folded to lower case -/
def dataCmc (name : List Nat) : List Nat :=
  (List.range 4).map fun i =>
    let c := name.getD (i + 1) 0
    if 65 ≤ c ∧ c ≤ 90 then c + 32 else c

/-- `save_to_qmem_pingordata(userid, q)` -/
def saveToQmemPingOrData (s : Srv) (u : Nat) (q : Query) : Srv :=
  let c0 := q.name.getD 0 0
  if c0 = 80 ∨ c0 = 112 then
    -- ping: base32-decode (no undotify) the characters between the 'P' and the first dot
    match q.name.idxOf? 46 with
    | none => s
    | some cp =>
      let cmc := Codec.dec Codec.b32 8 (cp - 1) (q.name.drop 1)
      if cmc.length < 4 then s
      else setUser s u fun x =>
        let r := saveToQmem x.qmemping x.qmempingLast QMEMPING_LEN (cmc.take 4) q.type
        { x with qmemping := r.1, qmempingLast := r.2 }
  else
    if q.name.length < 5 then s
    else setUser s u fun x =>
      let r := saveToQmem x.qmemdata x.qmemdataLast QMEMDATA_LEN (dataCmc q.name) q.type
      { x with qmemdata := r.1, qmemdataLast := r.2 }

/-- `answer_from_qmem(dns_fd, q, cmc, type, len, cmc_to_check)`: the (illegal) answer if duplicate -/
def answerFromQmem (q : Query) (mem : List QmemEntry) (cmc : List Nat) (u : Nat) : Option Event :=
  if mem.any (fun e => e.type != T_UNSET && e.type == q.type && e.cmc == cmc) then
    some (writeDns q (ascii "x") chT (.qmem u))
  else none

/-- `answer_from_qmem_data(dns_fd, userid, q)` -/
def answerFromQmemData (s : Srv) (u : Nat) (q : Query) : Option Event :=
  answerFromQmem q (getUser s u).qmemdata (dataCmc q.name) u

/-! ### send_chunk_or_dataless -/

/-- forget the current outpacket (`len = offset = sentlen = 0; outfragresent = 0`) -/
def dropOut (x : Session) : Session :=
  { x with outpacket := { x.outpacket with len := 0, offset := 0, sentlen := 0 }, outfragresent := 0 }

/-- first block of `send_chunk_or_dataless`: "If re-sent too many times, drop entire packet" -/
def scDropResent (s : Srv) (u : Nat) : Srv :=
  let x := getUser s u
  if x.outpacket.len > 0 ∧ x.outfragresent > 5 then (getFromOutpacketq (setUser s u dropOut) u).1
  else s

/-- `datalen`: `MIN(fragsize, len - offset)`, then `MIN(datalen, sizeof(pkt) - 2)`; 0 without outpacket.
(`offset < len` whenever `len > 0`, so the `int` subtraction is a `Nat` subtraction.) -/
def scDatalen (x : Session) : Nat :=
  if x.outpacket.len > 0 then min (min x.fragsize (x.outpacket.len - x.outpacket.offset)) (4096 - 2)
  else 0

/-- second block: remember the length of the fragment in flight, count the (re)send -/
def scPrepare (s : Srv) (u : Nat) : Srv :=
  if (getUser s u).outpacket.len > 0 then
    setUser s u fun x =>
      { x with outpacket := { x.outpacket with sentlen := scDatalen x }, outfragresent := x.outfragresent + 1 }
  else s

/-- the downstream packet: two header bytes and the fragment -/
def scPkt (x : Session) (datalen : Nat) : List Nat :=
  let last := if x.outpacket.len > 0 ∧ x.outpacket.len = x.outpacket.offset + datalen then 1 else 0
  [128 ||| ((x.inpacket.seqno % 8).toNat <<< 4) ||| (x.inpacket.fragment % 16).toNat,
   ((x.outpacket.seqno % 8).toNat <<< 5) ||| ((x.outpacket.fragment % 16).toNat <<< 1) ||| last]
  ++ (x.outpacket.data.drop x.outpacket.offset).take datalen

/-- the `write_dns` to `q` and, if a duplicate is remembered (`id2 != 0`), to the duplicate; returns the
query as the code leaves it (`id = id2; from = from2`) -/
def scAnswer (q : Query) (pkt : List Nat) (downenc : Nat) (u : Nat) : Query × List Event :=
  if q.id2 ≠ 0 then
    let q' := { q with id := q.id2, from_ := q.from2 }
    (q', [writeDns q pkt downenc (.chunk u), writeDns q' pkt downenc (.dupe u)])
  else (q, [writeDns q pkt downenc (.chunk u)])

/-- `send_chunk_or_dataless(dns_fd, userid, q)` with `q = &users[userid].<w>`; the `Bool` is the return
value 1 ("call us again") -/
def sendChunkOrDataless (s : Srv) (u : Nat) (w : QSel) : Res × Bool :=
  let s1 := scPrepare (scDropResent s u) u
  let x := getUser s1 u
  let datalen := scDatalen x
  let pkt := scPkt x datalen
  let a := scAnswer (w.get x) pkt x.downenc u
  let s2 := saveToQmemPingOrData s1 u a.1
  let s3 := saveToDnscache s2 u a.1 pkt
  let s4 := setUser s3 u fun y => w.set y { a.1 with id := 0 }
  if datalen > 0 ∧ datalen = x.outpacket.len then
    let r := getFromOutpacketq (setUser s4 u dropOut) u
    ((r.1, a.2), r.2)
  else ((s4, a.2), false)

/-- "Start sending immediately if query is waiting" (same code in `tunnel_tun` and `handle_full_packet`) -/
def sendWaiting (s : Srv) (u : Nat) : Res :=
  let x := getUser s u
  if x.qs.id ≠ 0 then (sendChunkOrDataless s u .qs).1
  else if x.q.id ≠ 0 then (sendChunkOrDataless s u .q).1
  else (s, [])

/-! ### tunnel_tun, handle_full_packet -/

/-- test `compress2`: 0x5a followed by the input -/
def compress (d : List Nat) : List Nat := 0x5a :: d

/-- test `uncompress` into a buffer of `cap` bytes -/
def uncompress (d : List Nat) (cap : Nat) : Option (List Nat) :=
  match d with
  | [] => none
  | b :: rest => if b = 0x5a ∧ rest.length ≤ cap then some rest else none

/-- `ip_dst` of the IP header that follows the 4-byte tun header, as a host-order number -/
def ipDst (frame : List Nat) : Nat := beVal ((frame.drop 20).take 4)

/-- `tunnel_tun(tun_fd, dns_fds)` when `read_tun` delivers `frame` -/
def tunnelTun (s : Srv) (frame : List Nat) : Res :=
  if frame.length = 0 then (s, [])
  else if frame.length < 4 + 20 then (s, [])
  else
    match findUserByIp s (ipDst frame) with
    | none => (s, [])
    | some u =>
      let out := compress frame
      let x := getUser s u
      if x.conn = .dnsNull then
        if x.outpacket.len > 0 then ((saveToOutpacketq s u out out.length).1, [])
        else sendWaiting (startNewOutpacket s u out out.length) u
      else (s, [sendRaw out out.length u RAW_HDR_CMD_DATA x.q])

/-- `write_tun` on Linux: the 4-byte tun header is overwritten with 00 00 08 00 -/
def writeTun (out : List Nat) : Event := Event.tunw ([0, 0, 8, 0] ++ out.drop 4)

/-- the part of `handle_full_packet` that hands the (still compressed) packet to another client -/
def deliverToUser (s : Srv) (t : Nat) (data : List Nat) (len : Nat) : Res :=
  let y := getUser s t
  if y.conn = .dnsNull then
    if y.outpacket.len = 0 then sendWaiting (startNewOutpacket s t data len) t
    else ((saveToOutpacketq s t data len).1, [])
  else (s, [sendRaw data len t RAW_HDR_CMD_DATA y.q])

/-- `handle_full_packet(tun_fd, dns_fds, userid)` -/
def handleFullPacket (s : Srv) (u : Nat) : Res :=
  let x := getUser s u
  let r : Res :=
    match uncompress (x.inpacket.data.take x.inpacket.len) 65536 with
    | some out =>
      if out.length ≥ 4 + 20 then
        match findUserByIp s (ipDst out) with
        | none => (s, [writeTun out])
        | some t => deliverToUser s t x.inpacket.data x.inpacket.len
      else (s, [])
    | none => (s, [])
  (setUser r.1 u fun y => { y with inpacket := { y.inpacket with len := 0, offset := 0 } }, r.2)

/-! ### process_downstream_ack -/

/-- `process_downstream_ack(userid, down_seq, down_frag)` -/
def processDownstreamAck (s : Srv) (u : Nat) (dnSeq dnFrag : Int) : Srv :=
  let x := getUser s u
  if x.outpacket.len = 0 then s
  else if x.outpacket.seqno ≠ dnSeq ∨ x.outpacket.fragment ≠ dnFrag then s
  else if x.outpacket.sentlen = 0 then s      -- nothing of this fragment was sent yet: stale ack
  else
    let off := x.outpacket.offset + x.outpacket.sentlen
    let s1 := setUser s u fun x =>
      { x with outpacket := { x.outpacket with offset := off, sentlen := 0, fragment := sChar (x.outpacket.fragment + 1) },
               outfragresent := 0 }
    if off ≥ x.outpacket.len then
      (getFromOutpacketq (setUser s1 u fun x =>
        { x with outpacket := { x.outpacket with len := 0, offset := 0, fragment := sChar (x.outpacket.fragment - 1) } }) u).1
    else s1

/-! ### handle_null_request, one function per command -/

inductive VersionAck where
  | ack | nack | full

/-- `send_version_response(fd, ack, payload, userid, q)`: note that the codec of the answer is
`users[userid].downenc` also for NACK / FULL, where `userid` is 0 -/
def sendVersionResponse (s : Srv) (kind : VersionAck) (payload : Nat) (userid : Nat) (q : Query) : Event :=
  let tag := match kind with
    | .ack => ascii "VACK"
    | .nack => ascii "VNAK"
    | .full => ascii "VFUL"
  writeDns q (tag ++ beBytes 4 payload ++ [userid % 256]) (getUser s userid).downenc

/-- `for (i…) { dnscache_q[i].id = 0; dnscache_answerlen[i] = 0; }` (names, types and answer bytes stay) -/
def clearDnscache (c : List DnsCacheEntry) : List DnsCacheEntry :=
  c.map fun e => { e with q := { e.q with id := 0 }, answerlen := 0 }

/-- the field resets of the `V` handler after the answer was sent -/
def resetSession (x : Session) : Session :=
  { x with q := { x.q with id := 0, id2 := 0 },
           qs := { x.qs with id := 0, id2 := 0 },
           qsNew := false,
           outpacket := { x.outpacket with len := 0, offset := 0, sentlen := 0, seqno := 0, fragment := 0 },
           outfragresent := 0,
           inpacket := { x.inpacket with len := 0, offset := 0, seqno := 0, fragment := 0 },
           fragsize := 100,
           conn := .dnsNull,
           lazy := false,
           oqNext := 0, oqFilled := 0,
           dnscache := clearDnscache x.dnscache,
           dcLast := 0,
           qmemping := x.qmemping.map (fun e => { e with type := T_UNSET }), qmempingLast := 0,
           qmemdata := x.qmemdata.map (fun e => { e with type := T_UNSET }), qmemdataLast := 0 }

/-- `V`: version handshake, allocates a slot -/
def handleVersion (s : Srv) (q : Query) (inb : List Nat) : Res :=
  let unpacked := Encoding.unpackData Codec.b32 65536 (inb.drop 1)
  let version := if unpacked.length > 4 then beVal (unpacked.take 4) else 0
  if version = PROTOCOL_VERSION then
    match findAvailableUser s with
    | (some u, s1) =>
      let r := popRand s1
      let s2 := setUser r.2 u fun x =>
        { x with seed := r.1, host := q.from_, q := q, encoder := .b32, downenc := chT }
      (setUser s2 u resetSession, [sendVersionResponse s2 .ack r.1 u q])
    | (none, s1) => (s1, [sendVersionResponse s1 .full s1.cfg.createdUsers 0 q])
  else (s, [sendVersionResponse s .nack PROTOCOL_VERSION 0 q])

/-- `L`: login -/
def handleLogin (s : Srv) (q : Query) (inb : List Nat) : Res :=
  let unpacked := Encoding.unpackData Codec.b32 65536 (inb.drop 1)
  if unpacked.length < 17 then (s, [writeDns q (ascii "BADLEN") chT])
  else
    let userid := charVal (unpacked.getD 0 0)
    if checkUserAndIp s userid q then (s, [writeDns q (ascii "BADIP") chT])
    else
      let u := userid.toNat
      let s1 := setUser s u fun x => { x with lastPkt := s.now }
      let x := getUser s1 u
      let logindata := Login.loginCalcC s.cfg.password x.seed
      if unpacked.length ≥ 18 ∧ logindata = (unpacked.drop 1).take 16 then
        let out := ipStr s.cfg.myIp ++ [45] ++ ipStr x.tunIp ++ [45] ++ ascii (toString s.cfg.mtu)
                    ++ [45] ++ ascii (toString s.cfg.netmask)
        (setUser s1 u fun x => { x with authenticated := true }, [writeDns q out x.downenc])
      else (s1, [writeDns q (ascii "LNAK") chT])

/-- `I`: "what is your external address" -/
def handleIp (s : Srv) (q : Query) (inb : List Nat) : Res :=
  let userid : Int := b32_8to5 (inb.getD 1 0)
  if checkAuthenticatedUserAndIp s userid q then (s, [writeDns q (ascii "BADIP") chT])
  else
    let addr :=
      if q.from_.fam = 4 then
        if s.cfg.nsIp ≠ 0 then beBytes 4 s.cfg.nsIp else beBytes 4 q.dest.ip
      else beBytes 16 q.dest.ip
    (s, [writeDns q (73 :: addr) chT])

/-- `Z`: echo of the received name -/
def handleZ (s : Srv) (q : Query) (inb : List Nat) : Res :=
  (s, [writeDns q inb chT])

/-- `S`: switch upstream codec -/
def handleSwitchCodec (s : Srv) (q : Query) (dlen : Nat) (inb : List Nat) : Res :=
  if dlen < 3 then (s, [writeDns q (ascii "BADLEN") chT])
  else
    let userid : Int := b32_8to5 (inb.getD 1 0)
    if checkAuthenticatedUserAndIpAndOptions s userid q then (s, [writeDns q (ascii "BADIP") chT])
    else
      let u := userid.toNat
      let dn := (getUser s u).downenc
      let codec := b32_8to5 (inb.getD 2 0)
      let sw (e : Enc) : Res := (userSwitchCodec s u e, [writeDns q e.cname dn])
      if codec = 5 then sw .b32
      else if codec = 6 then sw .b64
      else if codec = 26 then sw .b64u
      else if codec = 7 then sw .b128
      else (s, [writeDns q (ascii "BADCODEC") dn])

/-- `O`: options (downstream codec, lazy mode) -/
def handleOptions (s : Srv) (q : Query) (dlen : Nat) (inb : List Nat) : Res :=
  if dlen < 3 then (s, [writeDns q (ascii "BADLEN") chT])
  else
    let userid : Int := b32_8to5 (inb.getD 1 0)
    if checkAuthenticatedUserAndIpAndOptions s userid q then (s, [writeDns q (ascii "BADIP") chT])
    else
      let u := userid.toNat
      let c := inb.getD 2 0
      let setDn (d : Nat) (msg : String) : Res :=
        (setUser s u fun x => { x with downenc := d }, [writeDns q (ascii msg) d])
      let setLazy (l : Bool) (msg : String) : Res :=
        (setUser s u fun x => { x with lazy := l }, [writeDns q (ascii msg) (getUser s u).downenc])
      if c = 84 ∨ c = 116 then setDn 84 "Base32"
      else if c = 83 ∨ c = 115 then setDn 83 "Base64"
      else if c = 85 ∨ c = 117 then setDn 85 "Base64u"
      else if c = 86 ∨ c = 118 then setDn 86 "Base128"
      else if c = 82 ∨ c = 114 then setDn 82 "Raw"
      else if c = 76 ∨ c = 108 then setLazy true "Lazy"
      else if c = 73 ∨ c = 105 then setLazy false "Immediate"
      else (s, [writeDns q (ascii "BADCODEC") (getUser s u).downenc])

/-- `Y`: downstream codec check (no user id, no state) -/
def handleDownCodecCheck (s : Srv) (q : Query) (dlen : Nat) (inb : List Nat) : Res :=
  if dlen < 6 then (s, [writeDns q (ascii "BADLEN") chT])
  else if b32_8to5 (inb.getD 2 0) ≠ 1 then (s, [writeDns q (ascii "BADLEN") chT])
  else
    let c := inb.getD 1 0
    let named := q.type = T_TXT ∨ q.type = T_SRV ∨ q.type = T_MX ∨ q.type = T_CNAME ∨ q.type = T_A
    let rawOk := q.type = T_NULL ∨ q.type = T_TXT
    let dn : Option Nat :=
      if c = 84 ∨ c = 116 then (if named then some 84 else none)
      else if c = 83 ∨ c = 115 then (if named then some 83 else none)
      else if c = 85 ∨ c = 117 then (if named then some 85 else none)
      else if c = 86 ∨ c = 118 then (if named then some 86 else none)
      else if c = 82 ∨ c = 114 then (if rawOk then some 82 else none)
      else none
    match dn with
    | some d => (s, [writeDns q DOWNCODECCHECK1 d])
    | none => (s, [writeDns q (ascii "BADCODEC") chT])

/-- the probe payload: `buf[0..1]` = size, `buf[2]` = 107, then `v, v+107, …` (mod 256) -/
def probeBytes (size v : Nat) : List Nat :=
  ([size / 256 % 256, size % 256, 107] ++ (List.range 2045).map (fun i => (v + 107 * i) % 256)).take size

/-- `R`: downstream fragment size probe -/
def handleFragsizeProbe (s : Srv) (q : Query) (dlen : Nat) (inb : List Nat) : Res :=
  if dlen < 16 then (s, [writeDns q (ascii "BADLEN") chT])
  else
    let b1 := b32_8to5 (inb.getD 1 0)
    let userid : Int := ((b1 >>> 1) &&& 15 : Nat)
    if checkAuthenticatedUserAndIp s userid q then (s, [writeDns q (ascii "BADIP") chT])
    else
      let u := userid.toNat
      let req := ((b1 &&& 1) <<< 10) ||| ((b32_8to5 (inb.getD 2 0) &&& 31) <<< 5) ||| (b32_8to5 (inb.getD 3 0) &&& 31)
      if req < 2 ∨ req > 2047 then (s, [writeDns q (ascii "BADFRAG") (getUser s u).downenc])
      else
        let r := popRand s
        (r.2, [writeDns q (probeBytes req (r.1 % 256)) (getUser s u).downenc])

/-- `N`: set downstream fragment size (locks the options, empties the answer cache) -/
def handleSetFragsize (s : Srv) (q : Query) (inb : List Nat) : Res :=
  let unpacked := Encoding.unpackData Codec.b32 65536 (inb.drop 1)
  if unpacked.length < 3 then (s, [writeDns q (ascii "BADLEN") chT])
  else
    let userid := charVal (unpacked.getD 0 0)
    if checkAuthenticatedUserAndIpAndOptions s userid q then (s, [writeDns q (ascii "BADIP") chT])
    else
      let u := userid.toNat
      let maxFrag := (unpacked.getD 1 0 % 256) * 256 + unpacked.getD 2 0 % 256
      if maxFrag < 2 then (s, [writeDns q (ascii "BADFRAG") (getUser s u).downenc])
      else
        (setUser s u fun x => { x with fragsize := maxFrag, optionsLocked := true, dnscache := clearDnscache x.dnscache },
         [writeDns q ((unpacked.drop 1).take 2) (getUser s u).downenc])

/-- the two "duplicate of a waiting query" tests shared by the ping and data handlers:
remember the duplicate in `q` (only in lazy mode) or in `q_sendrealsoon` -/
def rememberDuplicate (s : Srv) (u : Nat) (q : Query) : Option Srv :=
  let x := getUser s u
  if x.q.id ≠ 0 ∧ q.type = x.q.type ∧ q.name = x.q.name ∧ x.lazy then
    some (setUser s u fun x => { x with q := { x.q with id2 := q.id, from2 := q.from_ } })
  else if x.qs.id ≠ 0 ∧ q.type = x.qs.type ∧ q.name = x.qs.name then
    some (setUser s u fun x => { x with qs := { x.qs with id2 := q.id, from2 := q.from_ } })
  else none

/-- `memcpy(&users[userid].q, q, sizeof(struct query)); users[userid].last_pkt = time(NULL);` -/
def saveQuery (s : Srv) (u : Nat) (q : Query) : Srv :=
  setUser s u fun x => { x with q := q, lastPkt := s.now }

/-- ping, after the duplicate filters: ack, answer the waiting queries, store the new one -/
def pingFresh (s : Srv) (u : Nat) (q : Query) (unpacked : List Nat) : Res :=
  let b := charVal (unpacked.getD 1 0)
  let s1 := processDownstreamAck s u (b / 16) (b % 16)
  let r1 : Res := if (getUser s1 u).qs.id ≠ 0 then (sendChunkOrDataless s1 u .qs).1 else (s1, [])
  let r2 : Res × Bool :=
    if (getUser r1.1 u).q.id ≠ 0 then
      let t := sendChunkOrDataless r1.1 u .q
      (t.1, !t.2)
    else ((r1.1, []), false)
  let didsend := r2.2
  let s3 := saveQuery r2.1.1 u q
  let x := getUser s3 u
  let r3 : Res :=
    if (!didsend ∧ x.outpacket.len > 0) ∨ !x.lazy then (sendChunkOrDataless s3 u .q).1 else (s3, [])
  (r3.1, r1.2 ++ r2.1.2 ++ r3.2)

/-- `P`: ping -/
def handlePing (s : Srv) (q : Query) (inb : List Nat) : Res :=
  if q.id = 0 then (s, [])
  else
    let unpacked := Encoding.unpackData Codec.b32 65536 (inb.drop 1)
    if unpacked.length < 4 then (s, [])
    else
      let userid := charVal (unpacked.getD 0 0)
      if checkAuthenticatedUserAndIp s userid q then (s, [writeDns q (ascii "BADIP") chT])
      else
        let u := userid.toNat
        match answerFromDnscache s u q with
        | some e => (s, [e])
        | none =>
        match answerFromQmem q (getUser s u).qmemping (unpacked.take 4) u with
        | some e => (s, [e])
        | none =>
        match rememberDuplicate s u q with
        | some s' => (s', [])
        | none => pingFresh s u q unpacked

/-- `recent_seqno(ourseqno, gotseqno)`: `n` iterations left -/
def recentSeqnoLoop (got : Int) : Nat → Int → Bool
  | 0, _ => false
  | n + 1, our =>
    let our := if our < 0 then 7 else our
    if got = our then true else recentSeqnoLoop got n (our - 1)

def recentSeqno (our got : Int) : Bool := recentSeqnoLoop got 4 our

/-- upstream sequence bookkeeping of the data handler; the `Bool` is `upstream_ok` -/
def dataUpstream (x : Session) (upSeq upFrag : Nat) : Session × Bool :=
  if (upSeq : Int) = x.inpacket.seqno ∧ (upFrag : Int) ≤ x.inpacket.fragment then (x, false)
  else if (upSeq : Int) ≠ x.inpacket.seqno ∧ recentSeqno x.inpacket.seqno upSeq then (x, false)
  else if (upSeq : Int) ≠ x.inpacket.seqno then
    ({ x with inpacket := { x.inpacket with seqno := upSeq, fragment := upFrag, len := 0, offset := 0 } }, true)
  else ({ x with inpacket := { x.inpacket with fragment := upFrag } }, true)

/-- "decode with this user's encoding … copy to packet buffer, update length" -/
def dataStore (x : Session) (payload : List Nat) : Session :=
  let unpacked := Encoding.unpackData x.encoder.codec 65536 payload
  let chunk := unpacked.take (PACKET_DATA_SIZE - x.inpacket.offset)
  { x with inpacket := { x.inpacket with data := x.inpacket.data.take x.inpacket.offset ++ chunk,
                                         len := x.inpacket.len + chunk.length,
                                         offset := x.inpacket.offset + chunk.length } }

/-- data handler: "If there is a query that must be returned real soon, do it"; `Bool` = `didsend` -/
def dataStepQs (s : Srv) (u : Nat) : Res × Bool :=
  if (getUser s u).qs.id ≠ 0 then
    let t := sendChunkOrDataless s u .qs
    (t.1, !t.2)
  else ((s, []), false)

/-- data handler: get rid of the earlier waiting query `users[userid].q` -/
def dataStepQ (s : Srv) (u : Nat) (upstreamOk lastfrag didsend : Bool) : Res × Bool :=
  let x := getUser s u
  if x.q.id ≠ 0 then
    if (x.outpacket.len > 0 ∧ !didsend) ∨ (upstreamOk ∧ !lastfrag ∧ !didsend) ∨ (!upstreamOk ∧ !didsend) ∨ !x.lazy then
      let t := sendChunkOrDataless s u .q
      (t.1, !t.2)
    else
      ((setUser s u fun x => { x with qs := x.q, qsNew := true, q := { x.q with id := 0 } }, []), true)
  else ((s, []), didsend)

/-- data handler: ack the fragment now, real soon, or not at all -/
def dataStepFinal (s : Srv) (u : Nat) (upstreamOk lastfrag didsend : Bool) : Res :=
  let x := getUser s u
  if x.outpacket.len > 0 ∧ !didsend then (sendChunkOrDataless s u .q).1
  else if !didsend ∨ !x.lazy then
    if upstreamOk ∧ lastfrag then
      (setUser s u fun x => { x with qs := x.q, qsNew := true, q := { x.q with id := 0 } }, [])
    else (sendChunkOrDataless s u .q).1
  else (s, [])

/-- data, after the duplicate filters -/
def dataFresh (s : Srv) (u : Nat) (q : Query) (inb : List Nat) : Res :=
  let b1 := b32_8to5 (inb.getD 1 0)
  let b2 := b32_8to5 (inb.getD 2 0)
  let b3 := b32_8to5 (inb.getD 3 0)
  let upSeq := (b1 >>> 2) &&& 7
  let upFrag := ((b1 &&& 3) <<< 2) ||| ((b2 >>> 3) &&& 3)
  let dnSeq := b2 &&& 7
  let dnFrag := b3 >>> 1
  let lastfrag : Bool := (b3 &&& 1) = 1
  let s1 := processDownstreamAck s u dnSeq dnFrag
  let up := dataUpstream (getUser s1 u) upSeq upFrag
  let upstreamOk := up.2
  let s2 := setUser s1 u fun _ => if upstreamOk then dataStore up.1 (inb.drop 5) else up.1
  let r3 : Res := if upstreamOk ∧ lastfrag then handleFullPacket s2 u else (s2, [])
  let r4 := dataStepQs r3.1 u
  let r5 := dataStepQ r4.1.1 u upstreamOk lastfrag r4.2
  let s6 := saveQuery r5.1.1 u q
  let r7 := dataStepFinal s6 u upstreamOk lastfrag r5.2
  (r7.1, r3.2 ++ r4.1.2 ++ r5.1.2 ++ r7.2)

/-- the user id of a data packet: the hex digit `in[0]` -/
def hexCode (c : Nat) : Int :=
  let a : Int := if 48 ≤ c ∧ c ≤ 57 then (c : Int) - 48 else -1
  let b : Int := if 97 ≤ c ∧ c ≤ 102 then (c : Int) - 97 + 10 else a
  if 65 ≤ c ∧ c ≤ 70 then (c : Int) - 65 + 10 else b

/-- upstream data (`in[0]` is a hex digit) -/
def handleData (s : Srv) (q : Query) (dlen : Nat) (inb : List Nat) : Res :=
  if dlen < 6 then (s, [])
  else if q.id = 0 then (s, [])
  else
    let userid := hexCode (inb.getD 0 0)
    if checkAuthenticatedUserAndIp s userid q then (s, [writeDns q (ascii "BADIP") chT])
    else
      let u := userid.toNat
      match answerFromDnscache s u q with
      | some e => (s, [e])
      | none =>
      match answerFromQmemData s u q with
      | some e => (s, [e])
      | none =>
      match rememberDuplicate s u q with
      | some s' => (s', [])
      | none => dataFresh s u q inb

def isHexDigit (c : Nat) : Bool :=
  (48 ≤ c && c ≤ 57) || (97 ≤ c && c ≤ 102) || (65 ≤ c && c ≤ 70)

/-- `handle_null_request(tun_fd, dns_fd, dns_fds, q, domain_len)`.
`in[512]` receives `MIN(domain_len, 512)` bytes of the name (`domain_len ≤ strlen(q->name) ≤ 255`). -/
def handleNullRequest (s : Srv) (q : Query) (dlen : Nat) : Res :=
  if dlen < 2 then (s, [])
  else
    let inb := q.name.take (min dlen 512)
    let c := inb.getD 0 0
    if c = 86 ∨ c = 118 then handleVersion s q inb
    else if c = 76 ∨ c = 108 then handleLogin s q inb
    else if c = 73 ∨ c = 105 then handleIp s q inb
    else if c = 90 ∨ c = 122 then handleZ s q inb
    else if c = 83 ∨ c = 115 then handleSwitchCodec s q dlen inb
    else if c = 79 ∨ c = 111 then handleOptions s q dlen inb
    else if c = 89 ∨ c = 121 then handleDownCodecCheck s q dlen inb
    else if c = 82 ∨ c = 114 then handleFragsizeProbe s q dlen inb
    else if c = 78 ∨ c = 110 then handleSetFragsize s q inb
    else if c = 80 ∨ c = 112 then handlePing s q inb
    else if isHexDigit c then handleData s q dlen inb
    else (s, [])

/-! ### the other request kinds -/

/-- `handle_ns_request(dns_fd, q, topdomain_offset)`: `dns_encode_ns_response` refuses
`domain_len == 1`; otherwise one datagram goes out (bytes not modelled here) -/
def handleNsRequest (s : Srv) (q : Query) (dlen : Nat) : Res :=
  if dlen = 1 then (s, []) else (s, [Event.nsa q.from_])

/-- `handle_a_request(dns_fd, q, fakeip)` -/
def handleARequest (s : Srv) (q : Query) (fakeip : Bool) : Res :=
  let dest : Addr :=
    if fakeip then ⟨4, 0x7f000001, q.dest.port⟩
    else if s.cfg.nsIp ≠ 0 then ⟨4, s.cfg.nsIp, q.dest.port⟩
    else q.dest
  if dest.fam ≠ 4 then (s, []) else (s, [Event.nsa q.from_])

/-- `forward_query(bind_fd, q)` (`dns_encode` into a 64 KiB buffer never returns < 1) -/
def forwardQuery (s : Srv) (q : Query) : Res :=
  ({ s with fw := FwQuery.put s.fw q.from_.toNat q.id }, [Event.fwd ⟨4, 0x7f000001, s.cfg.bindPort⟩])

/-- `dns_get_id(packet, len)`: 0 for anything shorter than a DNS header -/
def dnsGetId (d : List Nat) : Nat := if d.length < 12 then 0 else beVal (d.take 2)

/-- `tunnel_bind(bind_fd, dns_fds)` -/
def tunnelBind (s : Srv) (d : List Nat) : Res :=
  if d.length = 0 then (s, [])
  else
    match FwQuery.get s.fw (dnsGetId d) with
    | none => (s, [])
    | some j => (s, [Event.rly (Addr.ofNat (FwQuery.slot s.fw j).1) d])

/-- `tunnel_dns(tun_fd, dns_fd, dns_fds, bind_fd)` for a datagram that `read_dns` decoded into `q` -/
def tunnelDns (s : Srv) (q : Query) : Res :=
  if q.name.length = 0 then (s, [])        -- read_dns returns strlen(q->name); `<= 0` is dropped
  else
    match Common.queryDatalen q.name s.cfg.topdomain with
    | some dlen =>
      let n (i : Nat) := q.name.getD i 0
      if dlen = 3 ∧ q.type = T_A ∧ (n 0 = 110 ∨ n 0 = 78) ∧ (n 1 = 115 ∨ n 1 = 83) ∧ n 2 = 46 then
        handleARequest s q false
      else if dlen = 4 ∧ q.type = T_A ∧ (n 0 = 119 ∨ n 0 = 87) ∧ (n 1 = 119 ∨ n 1 = 87)
                ∧ (n 2 = 119 ∨ n 2 = 87) ∧ n 3 = 46 then
        handleARequest s q true
      else if q.type = T_NULL ∨ q.type = T_PRIVATE ∨ q.type = T_CNAME ∨ q.type = T_A ∨ q.type = T_MX
                ∨ q.type = T_SRV ∨ q.type = T_TXT then
        handleNullRequest s q dlen
      else if q.type = T_NS then handleNsRequest s q dlen
      else (s, [])
    | none => if s.cfg.bindPort ≠ 0 then forwardQuery s q else (s, [])

/-! ### raw mode -/

/-- the query `read_dns` has built when it calls `raw_decode`: zeroed except for `from` -/
def rawQuery (src : Addr) : Query := { Query.zero with from_ := src }

/-- `handle_raw_login(packet, len, q, fd, userid)` -/
def handleRawLogin (s : Srv) (packet : List Nat) (q : Query) (u : Nat) : Res :=
  if packet.length < 16 then (s, [])
  else if u ≥ s.cfg.createdUsers then (s, [])
  else
    let x := getUser s u
    if !x.active || x.disabled then (s, [])
    else if !x.authenticated then (s, [])
    else if x.lastPkt + 60 < s.now then (s, [])
    else if packet.take 16 = Login.loginCalcC s.cfg.password (x.seed + 1) then
      let s1 := setUser s u fun x => { x with lastPkt := s.now, q := q, host := q.from_ }
      let s2 := userSetConnType s1 u .rawUdp
      let myhash := Login.loginCalcC s.cfg.password (x.seed + 2 ^ 32 - 1)
      (setUser s2 u fun x => { x with authenticatedRaw := true },
       [sendRaw myhash 16 u RAW_HDR_CMD_LOGIN q])
    else (s, [])

/-- `handle_raw_data(packet, len, q, dns_fds, tun_fd, userid)` -/
def handleRawData (s : Srv) (packet : List Nat) (q : Query) (u : Nat) : Res :=
  if checkAuthenticatedUserAndIp s u q then (s, [])
  else if !(getUser s u).authenticatedRaw then (s, [])
  else
    let s1 := setUser s u fun x =>
      { x with lastPkt := s.now, q := q,
               inpacket := { x.inpacket with offset := 0, data := packet, len := packet.length } }
    handleFullPacket s1 u

/-- `handle_raw_ping(q, dns_fd, userid)` -/
def handleRawPing (s : Srv) (q : Query) (u : Nat) : Res :=
  if checkAuthenticatedUserAndIp s u q then (s, [])
  else if !(getUser s u).authenticatedRaw then (s, [])
  else
    (setUser s u fun x => { x with lastPkt := s.now, q := q }, [sendRaw [] 0 u RAW_HDR_CMD_PING q])

/-- `raw_decode(packet, len, q, …)`: `none` = "not a raw frame" (return 0: `read_dns` goes on with
`dns_decode`), `some` = handled (return 1) -/
def rawDecode (s : Srv) (packet : List Nat) (src : Addr) : Option Res :=
  if packet.length < RAW_HDR_LEN then none
  else if packet.take 3 ≠ rawHeader.take 3 then none
  else
    let b := packet.getD 3 0
    let u := b &&& RAW_HDR_USR_MASK
    let cmd := b &&& RAW_HDR_CMD_MASK
    let q := rawQuery src
    let body := packet.drop RAW_HDR_LEN
    if cmd = RAW_HDR_CMD_LOGIN then some (handleRawLogin s body q u)
    else if cmd = RAW_HDR_CMD_DATA then some (handleRawData s body q u)
    else if cmd = RAW_HDR_CMD_PING then some (handleRawPing s q u)
    else some (s, [])

end Iodine.Server
