import IodineModel.Server.Handle
/-
Model of one iteration of `tunnel()` (/repo/src/iodined.c): top of the loop, `select`, the handlers
in the order tun → v4 → v6 → bind, the "send realsoon's" sweep.
-/
namespace Iodine.Server
open Iodine Iodine.Gen

/-- what `select` reports readable in this iteration (at most one descriptor per iteration in the
harness; the v4 / v6 socket is chosen by the family of the source address and makes no difference
at this level) -/
inductive Input where
  | q (q : Query)                           -- a DNS query that `read_dns` decoded
  | rawf (src : Addr) (bytes : List Nat)    -- a datagram starting with the raw header
  | tun (frame : List Nat)
  | bind (bytes : List Nat)
  | tick                                    -- timeout
deriving Repr

/-- the `for` loop at the top of `tunnel()`: clears `q_sendrealsoon_new` of the live users.
`i` = index of the head of the remaining slots. -/
def clearNewFrom (now created : Nat) : List Session → Nat → List Session
  | [], _ => []
  | x :: xs, i =>
    (if i < created ∧ live x now then { x with qsNew := false } else x) :: clearNewFrom now created xs (i + 1)

/-- `tv` chosen by that loop, in µs: 20 ms if a live user has a query to be answered real soon -/
def timeoutFrom (now created : Nat) : List Session → Nat → Nat
  | [], _ => 10000000
  | x :: xs, i =>
    if i < created ∧ live x now ∧ x.qs.id ≠ 0 then 20000 else timeoutFrom now created xs (i + 1)

/-- top of the loop up to the call of `select`: new state, timeout (µs), "tun_fd is in the read set" -/
def topOfLoop (s : Srv) : Srv × Nat × Bool :=
  let s1 := { s with users := clearNewFrom s.now s.cfg.createdUsers s.users 0 }
  (s1, timeoutFrom s.now s.cfg.createdUsers s.users 0, !allUsersWaitingToSend s1)

/-- "Send realsoon's if tun or dns didn't already": `n` slots left, `i` = current slot -/
def sweepFrom : Nat → Nat → Srv → Res
  | 0, _, s => (s, [])
  | n + 1, i, s =>
    let x := getUser s i
    let r : Res :=
      if live x s.now ∧ x.qs.id ≠ 0 ∧ x.conn = .dnsNull ∧ !x.qsNew then (sendChunkOrDataless s i .qs).1
      else (s, [])
    andThen r (sweepFrom n (i + 1))

def sweep (s : Srv) : Res := sweepFrom s.cfg.createdUsers 0 s

/-- the handler selected by the input (`tunsel`: tun_fd was in the read set) -/
def dispatch (s : Srv) (inp : Input) (tunsel : Bool) : Res :=
  match inp with
  | .tick => (s, [])
  | .tun frame =>
    -- `read_tun` into `in[64*1024]`.  (A frame of 65536 bytes or more makes `compress2` fail with
    -- Z_BUF_ERROR and the C code go on with an uninitialised buffer: not modelled, frames are shorter.)
    if tunsel then tunnelTun s (frame.take 65536) else (s, [])
  | .q q => tunnelDns s q
  | .rawf src bytes =>
    -- `recvmsg` into `packet[64*1024]`
    match rawDecode s (bytes.take 65536) src with
    | some r => r
    | none => (s, [])          -- not a raw frame after all: `dns_decode` is not modelled here
  | .bind bytes =>
    -- `FD_ISSET(bind_fd, &fds)` with `bind_fd = 0` when forwarding is off; `recvfrom` into `packet[64*1024]`
    if s.cfg.bindPort ≠ 0 then tunnelBind s (bytes.take 65536) else (s, [])

/-- everything after `select` returned: handler events, `sweep` marker, sweep events (and the
harness's `tunskip` note when a tun frame was offered while tun_fd was not selected) -/
def body (s : Srv) (inp : Input) (tunsel : Bool) : Res :=
  let r := andThen (andThen (dispatch s inp tunsel) (fun s => (s, [Event.sweep]))) sweep
  match inp with
  | .tun _ => if tunsel then r else (r.1, r.2 ++ [Event.tunskip])
  | _ => r

/-- One iteration of `tunnel()`: top of loop at the current clock, `select` (during which the clock
may advance to `now'`), handlers, sweep.  Result: state, events, select timeout, tunsel. -/
def iteration (s : Srv) (inp : Input) (now' : Nat) : Srv × List Event × (Nat × Bool) :=
  let t := topOfLoop s
  let r := body { t.1 with now := now' } inp t.2.2
  (r.1, r.2, (t.2.1, t.2.2))

end Iodine.Server
