import IodineModel.Codec.Inst
import IodineModel.Encoding
import IodineModel.Wire.Put
import IodineModel.Wire.DnsEncode
/-
Model of the downstream answer path of the server, /repo/src/iodined.c:

  static size_t write_dns_nameenc(char *buf, size_t buflen, const char *data, int datalen, char downenc)
  static void   write_dns(int fd, struct query *q, const char *data, int datalen, char downenc)

`write_dns_nameenc` keeps two `static int`s, `td1` and `td2` (the rotating pseudo top-level domain "xy" of the
host names it builds); they are the state `Td` that is threaded through here.  Characters are `Nat`s,
`downenc` is the character code of the codec letter (`'T'` = 84 …).

`write_dns` hands what it has built to `dns_encode(buf[64K], q, QR_ANSWER, …)` (IodineModel/Wire/DnsEncode.lean)
and sends the result when `len ≥ 1`.

Size assumption of the model (the C code has no such test): in the MX/SRV loop the rest of `mxbuf[64K]`
behind the names built so far must hold another name (256 bytes); otherwise `write_dns_nameenc` would write
behind `mxbuf` (`R.fault .oobWrite`).  One name carries at least 153 payload bytes, so this needs a payload
of more than 39000 bytes; the server's payloads are at most a few KiB, the property C09 speaks of ≤ 4096.
-/
namespace Iodine.Server.WriteDns
open Iodine.Codec Iodine.Encoding Iodine.Wire.Put Iodine.Wire.DnsEncode

/-- the static variables `td1`, `td2` -/
abbrev Td := Nat × Nat

/-- `td1+=3; td2+=7; if (td1>=26) td1-=26; if (td2>=25) td2-=25;` -/
def tdStep (td : Td) : Td :=
  (if td.1 + 3 ≥ 26 then td.1 + 3 - 26 else td.1 + 3, if td.2 + 7 ≥ 25 then td.2 + 7 - 25 else td.2 + 7)

/-- hostname flavour: the letter put in front and the codec, `if (downenc == 'S') … else if 'U' … 'V' … else` -/
def nameCodec (downenc : Nat) : Nat × Codec :=
  if downenc = 83 then (105, b64)        -- 'S' → 'i'
  else if downenc = 85 then (106, b64u)  -- 'U' → 'j'
  else if downenc = 86 then (107, b128)  -- 'V' → 'k'
  else (104, b32)                        -- 'h'

structure NameEnc where
  /-- the static variables afterwards -/
  td : Td
  /-- what is in `buf` up to the NUL -/
  name : List Nat
  /-- return value: input bytes encoded -/
  used : Nat
  deriving Repr, DecidableEq

/-- `write_dns_nameenc(buf, buflen, data, datalen, downenc)`, for `buflen ≥ 256` (so that `inline_dotify`
has room: at most 246 characters + 4 dots) -/
def nameenc (td : Td) (buflen : Nat) (data : List Nat) (downenc : Nat) : NameEnc :=
  let td' := tdStep td
  let space0 := min 255 buflen - 4 - 2
  let space := space0 - space0 / 57
  let lc := nameCodec downenc
  let r := enc lc.2 space data
  -- inline_dotify(buf, buflen) over the letter and the text
  let s := dotify (lc.1 :: r.chars)
  let s' := if s.getLast?.getD 0 = DOT then s else s ++ [DOT]
  ⟨td', s' ++ [97 + td'.1, 97 + td'.2], r.used⟩

/-- The `while (1)` loop of the MX/SRV branch: `boff = b - mxbuf`, `offset` as in C (`data` is what is left,
`data + offset`).  Result: new static state and the contents of `mxbuf` from `boff` on, up to and including the
final `\0` (everything behind is zero from the `memset`s).  `none`: no room for another name (see above). -/
def mxBuild : (fuel : Nat) → Td → (boff : Nat) → (data : List Nat) → (downenc : Nat) → Td × Option (List Nat)
  | 0, td, _, _, _ => (td, none)
  | fuel + 1, td, boff, data, dn =>
    if 65536 < boff + 256 then (td, none) else
    let r := nameenc td (65536 - boff) data dn
    if r.used < 1 then
      -- nothing encoded: b++; *b = '\0'  — the terminator lands on the second character of the name just built
      (r.td, some ((r.name.set 1 0) ++ [0]))
    else if r.used ≥ data.length then
      -- b = b + strlen(b) + 1; offset >= datalen: break; *b = '\0'
      (r.td, some (r.name ++ [0, 0]))
    else
      match mxBuild fuel r.td (boff + r.name.length + 1) (data.drop r.used) dn with
      | (td', some rest) => (td', some (r.name ++ 0 :: rest))
      | (td', none) => (td', none)

/-- TXT flavour: letter and what follows it in `txtbuf` -/
def txtText (data : List Nat) (downenc : Nat) : List Nat :=
  let space := 65536 - 1
  if downenc = 83 then 115 :: (enc b64 space data).chars       -- 'S' → 's'
  else if downenc = 85 then 117 :: (enc b64u space data).chars -- 'U' → 'u'
  else if downenc = 86 then 118 :: (enc b128 space data).chars -- 'V' → 'v'
  else if downenc = 82 then 114 :: data.take (min data.length (65536 - 1))  -- 'R' → 'r', raw
  else 116 :: (enc b32 space data).chars                       -- 't'

/-- `write_dns` up to the result of `dns_encode`: new static state and `R.ok pkt` (`len = pkt.length`,
`buf[0..len) = pkt`), `R.ret rv` (`len = rv`), or a store outside a buffer.
`q->id = id`, `q->type = ty` (both `unsigned short`), `q->name = qname` (C string). -/
def writeDnsR (td : Td) (id ty : Nat) (qname data : List Nat) (downenc : Nat) : Td × R (List Nat) :=
  if ty = T_CNAME ∨ ty = T_A then
    let r := nameenc td 1024 data downenc
    -- dns_encode(buf, sizeof(buf), q, QR_ANSWER, cnamebuf, sizeof(cnamebuf))
    (r.td, dnsEncodeAnswer 65536 id ty qname (r.name ++ [0]) 1024)
  else if ty = T_MX ∨ ty = T_SRV then
    match mxBuild (data.length + 1) td 0 data downenc with
    | (td', some mem) => (td', dnsEncodeAnswer 65536 id ty qname mem 65536)
    | (td', none) => (td', .fault .oobWrite)
  else if ty = T_TXT then
    let t := txtText data downenc
    -- dns_encode(buf, sizeof(buf), q, QR_ANSWER, txtbuf, len+1)
    (td, dnsEncodeAnswer 65536 id ty qname t t.length)
  else
    (td, dnsEncodeAnswer 65536 id ty qname data data.length)

/-- `write_dns`: the datagram handed to `sendto`, `none` when nothing is sent (`len < 1`) -/
def writeDns (td : Td) (q : Nat × Nat × List Nat) (data : List Nat) (downenc : Nat) : Td × Option (List Nat) :=
  match writeDnsR td q.1 q.2.1 q.2.2 data downenc with
  | (td', .ok pkt) => (td', if pkt.length < 1 then none else some pkt)
  | (td', _) => (td', none)

end Iodine.Server.WriteDns
