import IodineModel.Gen.Tables
import IodineModel.FwQuery
import IodineModel.Users
/-
State of the model of iodined's session machine (/repo/src/iodined.c, /repo/src/user.c, user.h,
common.h `struct query`, `struct packet`).

Representation choices (all of them justified at the place of use in Handle.lean):
* bytes / characters are `Nat`; C strings are NUL-free `List Nat`;
* addresses are (family, ip, port) with the ip as a HOST-order number (`Users.lean` convention);
  family 0 is an all-zero `sockaddr_storage`;
* `struct packet.seqno/fragment` are C `char`s: `Int`, wrapped with `sChar` where the C stores;
* `int` fields that the code only ever assigns 0/1 and tests for truth are `Bool`;
* `time_t` is `Nat` (seconds), `int` lengths/counters that can never be negative are `Nat`.
-/
namespace Iodine.Server
open Iodine

/-- what is observable of a `struct sockaddr_storage` + length: family (0 = zeroed, 4, 6),
address (host-order number, 32 or 128 bits) and port (host order) -/
structure Addr where
  fam : Nat
  ip : Nat
  port : Nat
deriving DecidableEq, Repr, Inhabited

/-- `memset(&a, 0, sizeof a)` -/
def Addr.zero : Addr := ⟨0, 0, 0⟩

/-- Injective coding of an address as the `Nat` the `FwQuery` ring stores; the zeroed address is 0,
the value of a never-written ring slot. -/
def Addr.toNat (a : Addr) : Nat := a.fam * 2 ^ 144 + (a.ip % 2 ^ 128) * 2 ^ 16 + a.port % 2 ^ 16
def Addr.ofNat (n : Nat) : Addr := ⟨n / 2 ^ 144, n / 2 ^ 16 % 2 ^ 128, n % 2 ^ 16⟩

/-- `struct query` (common.h).  `name` is the C string up to its NUL.  `rcode` is never read by the
server; the `*len` fields are determined by the family.  `from_`/`from2` are `from`/`from2`. -/
structure Query where
  name : List Nat
  type : Nat
  id : Nat
  from_ : Addr
  id2 : Nat
  from2 : Addr
  dest : Addr
deriving DecidableEq, Repr, Inhabited

/-- `memset(q, 0, sizeof(struct query))` -/
def Query.zero : Query := ⟨[], 0, 0, Addr.zero, 0, Addr.zero, Addr.zero⟩

/-- `struct packet` (common.h).  `data` holds the bytes of `data[]` from index 0 as far as the model
has written them (at least `len` of them whenever `len` is read); bytes of the C array beyond
that are never read by the code. -/
structure Packet where
  len : Nat
  sentlen : Nat
  offset : Nat
  data : List Nat
  seqno : Int
  fragment : Int
deriving DecidableEq, Repr, Inhabited

def Packet.zero : Packet := ⟨0, 0, 0, [], 0, 0⟩

/-- conversion of an `int` to (signed) `char`, as gcc does it -/
def sChar (x : Int) : Int := (x + 128) % 256 - 128

/-- value of a plain `char` holding byte `b` -/
def charVal (b : Nat) : Int := sChar (b : Int)

/-- `users[u].encoder` points to one of the four `struct encoder`s -/
inductive Enc where
  | b32 | b64 | b64u | b128
deriving DecidableEq, Repr, Inhabited

/-- `enum connection` -/
inductive Conn where
  | rawUdp      -- CONN_RAW_UDP = 0
  | dnsNull     -- CONN_DNS_NULL = 1
deriving DecidableEq, Repr, Inhabited

/-- one entry of `dnscache_q[] / dnscache_answer[] / dnscache_answerlen[]` -/
structure DnsCacheEntry where
  q : Query
  answer : List Nat
  answerlen : Nat
deriving DecidableEq, Repr, Inhabited

def DnsCacheEntry.zero : DnsCacheEntry := ⟨Query.zero, [], 0⟩

/-- one entry of `qmem*_cmc[] / qmem*_type[]` -/
structure QmemEntry where
  cmc : List Nat      -- 4 bytes
  type : Nat
deriving DecidableEq, Repr, Inhabited

def QmemEntry.zero : QmemEntry := ⟨[0, 0, 0, 0], 0⟩

/-- `struct tun_user` (user.h): every field iodined.c / user.c read.
(`id`, `hostlen`, `out_acked_seqno`, `out_acked_fragment` are written or declared but never read.) -/
structure Session where
  active : Bool
  authenticated : Bool
  authenticatedRaw : Bool
  optionsLocked : Bool
  disabled : Bool
  lastPkt : Nat
  seed : Nat
  tunIp : Nat
  host : Addr
  q : Query
  qs : Query                 -- q_sendrealsoon
  qsNew : Bool               -- q_sendrealsoon_new
  inpacket : Packet
  outpacket : Packet
  outfragresent : Nat
  encoder : Enc
  downenc : Nat              -- char
  fragsize : Nat
  conn : Conn
  lazy : Bool
  qmemping : List QmemEntry  -- QMEMPING_LEN entries
  qmempingLast : Nat
  qmemdata : List QmemEntry  -- QMEMDATA_LEN entries
  qmemdataLast : Nat
  outpacketq : List Packet   -- OUTPACKETQ_LEN entries (only data/len are used)
  oqNext : Nat               -- outpacketq_nexttouse
  oqFilled : Nat             -- outpacketq_filled
  dnscache : List DnsCacheEntry  -- DNSCACHE_LEN entries
  dcLast : Nat               -- dnscache_lastfilled
deriving DecidableEq, Repr, Inhabited

/-- a `calloc`ed slot after `init_users` gave it its tunnel address.
(`encoder` is a NULL pointer there; it is never dereferenced before the `V` handler sets it, and
`conn = 0` is CONN_RAW_UDP.) -/
def Session.zero (tunIp : Nat) : Session :=
  { active := false, authenticated := false, authenticatedRaw := false, optionsLocked := false,
    disabled := false, lastPkt := 0, seed := 0, tunIp := tunIp, host := Addr.zero,
    q := Query.zero, qs := Query.zero, qsNew := false,
    inpacket := Packet.zero, outpacket := Packet.zero, outfragresent := 0,
    encoder := .b32, downenc := 0, fragsize := 0, conn := .rawUdp, lazy := false,
    qmemping := List.replicate Gen.QMEMPING_LEN QmemEntry.zero, qmempingLast := 0,
    qmemdata := List.replicate Gen.QMEMDATA_LEN QmemEntry.zero, qmemdataLast := 0,
    outpacketq := List.replicate Gen.OUTPACKETQ_LEN Packet.zero, oqNext := 0, oqFilled := 0,
    dnscache := List.replicate Gen.DNSCACHE_LEN DnsCacheEntry.zero, dcLast := 0 }

/-- the file-scope configuration variables of iodined.c -/
structure Config where
  checkIp : Bool
  password : List Nat        -- the 32 bytes of `password[]` before its final NUL
  myIp : Nat                 -- host order
  netmask : Nat              -- `netmask` = netbits
  topdomain : List Nat
  mtu : Int
  nsIp : Nat                 -- host order, 0 = INADDR_ANY
  bindPort : Nat             -- `bind_fd` is enabled iff ≠ 0
  dest4 : Nat                -- local address reported for v4 datagrams
  dest6 : Nat
  createdUsers : Nat
deriving DecidableEq, Repr, Inhabited

/-- the whole server: configuration, `users[]` (`usercount = users.length`), the forward ring,
the queue `rand()` reads from and the value of `time(NULL)` during the current iteration -/
structure Srv where
  cfg : Config
  users : List Session
  fw : FwQuery.Fw
  rand : List Nat
  now : Nat
deriving DecidableEq, Repr

/-- GHOST annotation of an answer (not printed by the driver, not part of the code's behaviour): which call site
of `write_dns` produced it.  It lets the property theorems speak about "answers carrying tunnel data for
session u" without re-parsing query names. -/
inductive Tag where
  | ctrl                 -- handshake / option / error answers (VACK, LNAK, BADIP, ...)
  | chunk (u : Nat)      -- `send_chunk_or_dataless`: data header (+ fragment) for session u, first `write_dns`
  | dupe (u : Nat)       -- `send_chunk_or_dataless`: the same packet again, to the remembered duplicate (id2/from2)
  | cached (u : Nat)     -- `answer_from_dnscache`: replay of a cached answer of session u
  | qmem (u : Nat)       -- `answer_from_qmem`: the illegal "x" answer to a recognised duplicate of session u
deriving DecidableEq, Repr

/-- output events (docs/SRV_PROTOCOL.md) -/
inductive Event where
  | ans (dst : Addr) (id type downenc : Nat) (name data : List Nat) (tag : Tag := .ctrl)
  | raw (dst : Addr) (bytes : List Nat)
  | tunw (frame : List Nat)
  | fwd (dst : Addr)
  | rly (dst : Addr) (bytes : List Nat)
  | nsa (dst : Addr)
  | sweep          -- marks the start of the "send realsoon's" sweep of the iteration
  | tunskip
deriving DecidableEq, Repr

/-- result of a handler: new state and the events it produced, in order -/
abbrev Res := Srv × List Event

/-- `users[u]`; an all-zero slot outside the table (never happens after the range checks) -/
def getUser (s : Srv) (u : Nat) : Session := s.users.getD u (Session.zero 0)

/-- every write to `users[u]` -/
def setUser (s : Srv) (u : Nat) (f : Session → Session) : Srv :=
  { s with users := s.users.modify u f }

/-- a handler that only produces events -/
def emit (s : Srv) (evs : List Event) : Res := (s, evs)

/-- sequencing: run `f` on the state of `r`, append its events -/
def andThen (r : Res) (f : Srv → Res) : Res := ((f r.1).1, r.2 ++ (f r.1).2)

/-- `rand()` -/
def popRand (s : Srv) : Nat × Srv :=
  match s.rand with
  | [] => (0, s)
  | v :: rest => (v, { s with rand := rest })

/-- `usercount` -/
def usercount (s : Srv) : Nat := s.users.length

/-- server state right after the `cfg` op -/
def Srv.init (cfg : Config) (netbits : Nat) : Srv :=
  let us := (Users.initUsers cfg.myIp netbits).map Session.zero
  { cfg := { cfg with createdUsers := us.length }, users := us, fw := FwQuery.init, rand := [], now := 1000 }

end Iodine.Server
