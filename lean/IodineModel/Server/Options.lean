import IodineModel.Getopt
import IodineModel.Users
import IodineModel.Common
import IodineModel.Server.State
/-
Model of `main()` of src/iodined.c: option handling, start-up validation and the start-up actions up to the call of `tunnel()`,
exit by exit in the order of the C code.  Tied to the code by the `main` op of harness/h_srv.c (the real `main()` runs with
the operating system substituted) against the `smain` op of Drv/Options.lean.

The environment (`Env`) is everything `main()` obtains from outside its argument vector: `getenv("IODINED_PASS")`, the line
typed at the password prompt, and the results of the operating-system calls that can fail.
-/
namespace Iodine.Server.Options
open Iodine Iodine.Getopt

/-- "46vcsfhDu:t:d:m:l:L:p:n:b:P:z:F:i:" -/
def optstring : List Nat :=
  [52, 54, 118, 99, 115, 102, 104, 68, 117, 58, 116, 58, 100, 58, 109, 58, 108, 58, 76, 58, 112, 58, 110, 58, 98, 58, 80, 58,
   122, 58, 70, 58, 105, 58]

example : optstring = ascii "46vcsfhDu:t:d:m:l:L:p:n:b:P:z:F:i:" := by decide

def sAuto : List Nat := [97, 117, 116, 111]
def sExternal : List Nat := [101, 120, 116, 101, 114, 110, 97, 108]
def sResolver : List Nat :=
  [114, 101, 115, 111, 108, 118, 101, 114, 49, 46, 111, 112, 101, 110, 100, 110, 115, 46, 99, 111, 109]

example : sAuto = ascii "auto" ∧ sExternal = ascii "external" ∧ sResolver = ascii "resolver1.opendns.com" := by decide

structure Env where
  /-- `getenv("IODINED_PASS")` -/
  envPass : Option (List Nat)
  /-- the characters the terminal delivers to `fscanf(stdin, "%79[^\n]", pwd)` in `read_password` -/
  typed : List Nat
  /-- `get_external_ip`: the address in the answer of the opendns query (host order), `none` = no usable answer -/
  extIp : Option Nat
  /-- `sd_listen_fds(0)` -/
  sd : Int
  /-- `getpwnam(name)`: the uid, `none` = no such user -/
  userUid : List Nat → Option Nat
  /-- `setgroups/setgid/setuid` succeed for this uid -/
  setuidOk : Nat → Bool
  /-- `open_tun(device) != -1` -/
  openTun : Option (List Nat) → Bool
  /-- `get_addr(host, port, AF_INET, …)`: the address found (host order), `none` = failure -/
  getAddr4 : Option (List Nat) → Option Nat
  /-- `get_addr(host, port, AF_INET6, …) >= 0` -/
  getAddr6 : Option (List Nat) → Bool
  /-- what the never-written `dns4addr` holds when `-6` is given (read by the forwarding-loop test: an uninitialised read) -/
  stack4 : Nat

/-- the locals and globals the `getopt` loop assigns, with `main()`'s initial values -/
structure Opts where
  addrfamily : Nat := 0
  checkIp : Bool := true
  skipipconfig : Bool := false
  foreground : Bool := false
  debug : Nat := 0
  username : Option (List Nat) := none
  newroot : Option (List Nat) := none
  device : Option (List Nat) := none
  pidfile : Option (List Nat) := none
  context : Option (List Nat) := none
  listenIp4 : Option (List Nat) := none
  listenIp6 : Option (List Nat) := none
  mtu : Int := 1130
  port : Int := 53
  nsIp : Nat := 0
  nsGetExternal : Bool := false
  bindEnable : Bool := false
  bindPort : Int := 0
  maxIdle : Int := 0
  /-- `static char password[33]` -/
  password : List Nat := List.replicate 33 0
deriving DecidableEq, Repr

/-- one iteration of the `switch (choice)`: `Except.error` = the process exits -/
def optStep (o : Opts) : Opt → Except Exit Opts
  | .flag 52 => .ok { o with addrfamily := 4 }
  | .flag 54 => .ok { o with addrfamily := 6 }
  | .flag 118 => .error (.exit 0 "version")
  | .flag 99 => .ok { o with checkIp := false }
  | .flag 115 => .ok { o with skipipconfig := true }
  | .flag 102 => .ok { o with foreground := true }
  | .flag 104 => .error (.exit 0 "help")
  | .flag 68 => .ok { o with debug := o.debug + 1 }
  | .arg 117 a => .ok { o with username := some a }
  | .arg 116 a => .ok { o with newroot := some a }
  | .arg 100 a => .ok { o with device := some a }
  | .arg 109 a => .ok { o with mtu := atoi a }
  | .arg 108 a => .ok { o with listenIp4 := some a }
  | .arg 76 a => .ok { o with listenIp6 := some a }
  | .arg 112 a => .ok { o with port := atoi a }
  | .arg 110 a => if a = sAuto then .ok { o with nsGetExternal := true } else .ok { o with nsIp := inetAddr a }
  | .arg 98 a => .ok { o with bindEnable := true, bindPort := atoi a }
  | .arg 70 a => .ok { o with pidfile := some a }
  | .arg 105 a => .ok { o with maxIdle := atoi a }
  | .arg 80 a =>
    -- strncpy(password, optarg, sizeof(password)); password[sizeof(password)-1] = 0;
    .ok { o with password := (strncpy o.password a 33).set 32 0 }
  | .arg 122 a => .ok { o with context := some a }
  | _ => .error (.exit 2 "usage:getopt")

def optLoop (o : Opts) : List Opt → Except Exit Opts
  | [] => .ok o
  | x :: xs =>
    match optStep o x with
    | .error e => .error e
    | .ok o' => optLoop o' xs

/-- the globals `tunnel()` and the handlers read, as `main()` leaves them, and the arguments of `tunnel()` -/
structure Final where
  password : List Nat          -- all 33 bytes
  topdomain : List Nat
  myIp : Nat
  netmask : Int
  mtu : Int                    -- `my_mtu`
  checkIp : Bool
  nsIp : Nat
  bindPort : Int               -- the global `bind_port`
  debug : Nat
  createdUsers : Nat
  pool : List Nat              -- `users[i].tun_ip`, i < created_users
  bindFd : Int                 -- argument of tunnel(): 0 = no forwarding
  maxIdle : Int
  v4fd : Int
  v6fd : Int
  /-- `users[0 .. usercount)` as `init_users` leaves the `calloc`ed array (`usercount = users.length`) -/
  users : List Server.Session
  /-- the forward ring after `fw_query_init()` -/
  fw : FwQuery.Fw
deriving DecidableEq, Repr

structure Result where
  outcome : Outcome
  events : List Ev
  final : Option Final
deriving Repr

def TUN_FD : Int := 1001
def V4_FD : Int := 1002
def V6_FD : Int := 1003
def BIND_FD : Int := 1004
def EXT_FD : Int := 1005

/-- `get_external_ip(&extip)`: the substituted calls it makes and the address, `none` = it returns non-zero -/
def getExternalIp (env : Env) : List Ev × Option Nat :=
  match env.getAddr4 (some sResolver) with
  | none => ([.ga 4 (some sResolver) 53 0], none)
  | some _ =>
    match env.extIp with
    | some ip => ([.ga 4 (some sResolver) 53 0, .odh none 0 4 1, .extq, .cd EXT_FD], some ip)
    | none => ([.ga 4 (some sResolver) 53 0, .odh none 0 4 1, .extq, .extq, .extq, .cd EXT_FD], none)

/-- everything decided when `main()` reaches `created_users = init_users(my_ip, netmask)` -/
structure Validated where
  o : Opts
  ipStr : List Nat             -- `argv[0]` cut at the '/'
  myIp : Nat
  netmask : Int
  topdomain : List Nat
  uid : Option Nat             -- `pw`
  foreground : Bool
  addrfamily : Nat             -- may have been set to 4 ("IPv6 not supported, skipping")
  dns4 : Nat                   -- `dns4addr.sin_addr`
  nsIp : Nat
  password : List Nat
deriving Repr

def usage (tag : String) (evs : List Ev) : Except (Exit × List Ev) α := .error (.exit 2 ("usage:" ++ tag), evs)

/-- the IPv6 listen address block -/
def listen6 (env : Env) (o : Opts) (fam : Nat) (evs : List Ev) : Except (Exit × List Ev) (Nat × List Ev) :=
  if fam = 0 ∨ fam = 6 then
    let evs := evs ++ [.ga 6 o.listenIp6 o.port 1]
    if env.getAddr6 o.listenIp6 then .ok (fam, evs)
    else
      match o.listenIp6 with
      | none => if fam = 6 then .error (.exit 3 "nov6", evs) else .ok (4, evs ++ [.warn "v6skip"])
      | some _ => usage "listen6" evs
  else .ok (fam, evs)

/-- the IPv4 listen address block: the address in `dns4addr` -/
def listen4 (env : Env) (o : Opts) (evs : List Ev) : Except (Exit × List Ev) (Nat × List Ev) :=
  if o.addrfamily = 0 ∨ o.addrfamily = 4 then
    let ext : Except (Exit × List Ev) (Option (List Nat) × List Ev) :=
      if o.listenIp4 = some sExternal then
        let r := getExternalIp env
        match r.2 with
        | none => .error (.exit 3 "extip", evs ++ r.1)
        | some ip => .ok (some (Client.Shell.inetNtoa ip), evs ++ r.1)
      else .ok (o.listenIp4, evs)
    match ext with
    | .error e => .error e
    | .ok (host, evs) =>
      let evs := evs ++ [.ga 4 host o.port 1]
      match env.getAddr4 host with
      | none => usage "listen4" evs
      | some a => .ok (a, evs)
  else .ok (env.stack4, evs)

/-- from `argc -= optind` to the password block -/
def validate (env : Env) (o : Opts) (rest : List (List Nat)) : Except (Exit × List Ev) (Validated × List Ev) :=
  match rest with
  | [a0, a1] =>
    -- netsize = strchr(argv[0], '/'); if (netsize) { *netsize = 0; netsize++; netmask = atoi(netsize); }
    let ipStr := a0.takeWhile (· ≠ 47)
    let netmask : Int := if 47 ∈ a0 then atoi ((a0.dropWhile (· ≠ 47)).drop 1) else 27
    let myIp := inetAddr ipStr
    if myIp = 0xffffffff then usage "myip" []
    else if Common.checkTopdomain a1 true ≠ 0 then usage "topdomain" []
    else
      let pw : Except (Exit × List Ev) (Option Nat) :=
        match o.username with
        | none => .ok none
        | some u => match env.userUid u with
          | none => usage "nouser" []
          | some uid => .ok (some uid)
      match pw with
      | .error e => .error e
      | .ok uid =>
      if o.mtu ≤ 0 then usage "mtu" []
      else if o.port < 1 ∨ o.port > 65535 then usage "port" []
      else
        let foreground := o.foreground || o.debug ≠ 0
        match listen4 env o [] with
        | .error e => .error e
        | .ok (dns4, evs) =>
        match listen6 env o o.addrfamily evs with
        | .error e => .error e
        | .ok (fam, evs) =>
        if o.bindEnable ∧ (o.bindPort < 1 ∨ o.bindPort > 65535) then usage "bindport" evs
        else if o.bindEnable ∧ o.bindPort = o.port ∧ (dns4 = 0 ∨ dns4 = 0x7f000001) then usage "loop" evs
        else
          let ext : Except (Exit × List Ev) (Nat × List Ev) :=
            if o.nsGetExternal then
              let r := getExternalIp env
              match r.2 with
              | none => .error (.exit 3 "extip", evs ++ r.1)
              | some ip => .ok (ip, evs ++ r.1)
            else .ok (o.nsIp, evs)
          match ext with
          | .error e => .error e
          | .ok (nsIp, evs) =>
          if nsIp = 0xffffffff then usage "nsip" evs
          else if netmask > 30 ∨ netmask < 8 then usage "netmask" evs
          else
            let p := passwordPhase env.envPass env.typed o.password
            .ok ({ o := o, ipStr := ipStr, myIp := myIp, netmask := netmask, topdomain := a1, uid := uid, foreground := foreground,
                   addrfamily := fam, dns4 := dns4, nsIp := nsIp, password := p.1 }, evs ++ (if p.2 then [.prompt] else []))
  | _ => usage "argc" []

/-- the sockets: `sd_listen_fds` or `open_dns`; `none` = `retval = 1; goto cleanup` -/
def sockets (env : Env) (v : Validated) : List Ev × Option (Int × Int) :=
  if env.sd < 0 then ([.sd, .warn "sderr"], none)
  else if env.sd = 0 then
    let e4 : List Ev := if v.addrfamily = 0 ∨ v.addrfamily = 4 then [.od4 v.dns4 (v.o.port.toNat % 65536) 16] else []
    let e6 : List Ev := if v.addrfamily = 0 ∨ v.addrfamily = 6 then [.od6 (v.o.port.toNat % 65536) 28 1] else []
    (.sd :: e4 ++ e6, some (if v.addrfamily = 0 ∨ v.addrfamily = 4 then V4_FD else -1,
                              if v.addrfamily = 0 ∨ v.addrfamily = 6 then V6_FD else -1))
  else if env.sd ≤ 2 then
    -- the substituted sd_is_socket: descriptor 3 is the IPv4 socket, descriptor 4 the IPv6 socket
    ([.sd], some (3, if env.sd = 2 then 4 else -1))
  else ([.sd, .warn "sdmany"], none)

def cleanup (v4 v6 : Int) : List Ev :=
  (if v6 ≥ 0 then [Ev.cd v6] else []) ++ (if v4 ≥ 0 then [Ev.cd v4] else []) ++ [.ct TUN_FD]

/-- substituted calls from `open_tun` to the sockets -/
def evPre (env : Env) (v : Validated) : List Ev :=
  [Ev.tun v.o.device] ++
  (if v.o.skipipconfig then []
   else [.setip v.ipStr (Client.Shell.inetNtoa ((Users.initUsers v.myIp v.netmask.toNat).headD 0)) v.netmask, .setmtu v.o.mtu]) ++
  (sockets env v).1

/-- … from the forwarding socket to `do_chroot` -/
def evMid (v : Validated) : List Ev :=
  (if v.o.bindEnable then [Ev.odh none 0 4 0] else []) ++
  (if v.foreground then [] else [.detach]) ++
  (match v.o.pidfile with | some f => [.pidfile f] | none => []) ++
  (match v.o.newroot with | some d => [.chroot d] | none => [])

/-- … from `do_setcon` to the end: `tunnel()` and the clean-up -/
def evPost (v : Validated) (v4 v6 bindFd : Int) : List Ev :=
  (match v.o.context with | some c => [Ev.setcon c] | none => []) ++
  [.started v.o.port, .tunnel TUN_FD v4 v6 bindFd v.o.maxIdle, .cd bindFd] ++ cleanup v4 v6

/-- the globals when `tunnel()` is called -/
def finalOf (v : Validated) (v4 v6 : Int) : Final :=
  let pool := Users.initUsers v.myIp v.netmask.toNat
  { password := v.password, topdomain := v.topdomain, myIp := v.myIp, netmask := v.netmask, mtu := v.o.mtu,
    checkIp := v.o.checkIp, nsIp := v.nsIp, bindPort := v.o.bindPort, debug := v.o.debug,
    createdUsers := pool.length, pool := pool, bindFd := if v.o.bindEnable then BIND_FD else 0, maxIdle := v.o.maxIdle,
    v4fd := v4, v6fd := v6, users := pool.map Server.Session.zero, fw := FwQuery.init }

/-- from `created_users = init_users(my_ip, netmask)` to the end of `main()` -/
def startup (env : Env) (v : Validated) (evs : List Ev) : Result :=
  if ¬ env.openTun v.o.device then ⟨.ret 1, evs ++ [.tun v.o.device], none⟩
  else
    match (sockets env v).2 with
    | none => ⟨.ret 1, evs ++ evPre env v ++ [.ct TUN_FD], none⟩
    | some (v4, v6) =>
      let bindFd : Int := if v.o.bindEnable then BIND_FD else 0
      match v.uid with
      | some uid =>
        if env.setuidOk uid then
          ⟨.run 0, evs ++ evPre env v ++ evMid v ++ [.setuid uid] ++ evPost v v4 v6 bindFd, some (finalOf v v4 v6)⟩
        else ⟨.exit 2 "usage:setuid", evs ++ evPre env v ++ evMid v ++ [.setuid uid], none⟩
      | none => ⟨.run 0, evs ++ evPre env v ++ evMid v ++ evPost v v4 v6 bindFd, some (finalOf v v4 v6)⟩

/-- `main(argc, argv)` of iodined.c -/
def serverMain (env : Env) (argv : List (List Nat)) : Result :=
  let g := getoptAll optstring argv
  match optLoop {} g.1 with
  | .error e => ⟨e.toOutcome, [], none⟩
  | .ok o =>
    match validate env o g.2 with
    | .error (e, evs) => ⟨e.toOutcome, evs, none⟩
    | .ok (v, evs) => startup env v evs

/-- the `Server.Config` the session model is started with (`dest4/dest6` belong to the harness's `recvmsg`) -/
def Final.toConfig (f : Final) : Server.Config :=
  { checkIp := f.checkIp, password := f.password.take 32, myIp := f.myIp, netmask := f.netmask.toNat, topdomain := f.topdomain,
    mtu := f.mtu, nsIp := f.nsIp, bindPort := if f.bindFd = 0 then 0 else f.bindPort.toNat, dest4 := 0, dest6 := 0,
    createdUsers := f.createdUsers }

/-- the configuration of the running process: `toConfig` + the local addresses `recvmsg` reports for the datagrams (in the real process a
property of each datagram; the session model keeps them in the configuration) -/
def Final.cfg (f : Final) (dest4 dest6 : Nat) : Server.Config := { f.toConfig with dest4 := dest4, dest6 := dest6 }

/-- The state of the process when `tunnel()` is entered: the globals `main()` has set, `users[]`, the forward ring, the stream `rnd` of
values `rand()` is going to return (`main()` calls `srand(time(NULL))`: the stream is whatever libc's generator yields for that seed;
nothing has been drawn from it yet), and the clock.  (`now`: the model keeps `time(NULL)` in the state; every iteration overwrites it
with the value after `select`, and with all slots inactive the top of the loop does not look at it — `Lemmas/OptTop.lean`,
`start_clock_irrelevant`.) -/
def Final.srv (f : Final) (rnd : List Nat) (dest4 dest6 now : Nat) : Server.Srv :=
  { cfg := f.cfg dest4 dest6, users := f.users, fw := f.fw, rand := rnd, now := now }

end Iodine.Server.Options
