import IodineModel.Server.Run
import IodineModel.Server.WriteDns
import IodineModel.Wire.DnsDecode
import IodineModel.Wire.DnsEncode
/-
The server at BYTE level: one iteration of `tunnel()` (/repo/src/iodined.c) from the datagram that `recvmsg`
delivers to the datagrams that `sendto` is handed.  Nothing is modelled anew here; the file COMPOSES

  * `Wire.dnsDecodeQuery`                  (dns.c  `dns_decode(NULL, 0, q, QR_QUERY, packet, r)`),
  * `Server.rawDecode` / `Server.iteration` (iodined.c, the session machine on decoded queries),
  * `WriteDns.writeDns`                     (iodined.c `write_dns` → `dns_encode(QR_ANSWER)` → `sendto`),
  * `Wire.DnsEncode.dnsEncodeNsResponse` / `dnsEncodeAResponse` / `dnsEncodeQuery`
                                            (what `handle_ns_request`, `handle_a_request`, `forward_query` send)

the way `read_dns`, `tunnel_dns`, `handle_ns_request`, `handle_a_request`, `forward_query` call them:

`read_dns(fd, …, q)`
    r = recvmsg(fd, packet[64*1024])                     -- at most 65536 bytes of the datagram
    if (r > 0) { memset(q, 0); q->from = from;
        if (raw_decode(packet, r, q, …)) return 0;       -- raw frame: handled inside, nothing else happens
        if (dns_decode(NULL, 0, q, QR_QUERY, packet, r) <= 0) return 0;
        q->destination = <local address of the datagram, from the control message>;
        return strlen(q->name); }
    return 0;
`tunnel_dns`: `if ((read = read_dns(…)) <= 0) return 0;` — a dropped datagram is an iteration in which only the top of
the loop and the sweep run (`Input.tick`).

`packet[]` is an uninitialised stack array: the bytes behind the datagram are whatever earlier calls left there.
`decodeInputR` takes that residue as a parameter (`Wire.RxBuf.res`); `decodeInput` is the instance with a zero
residue (what the correspondence harness cannot tell apart from any other, by Props/C12 `read_dns_residue_independent`).

The static variables `td1`, `td2` of `write_dns_nameenc` are process-wide: `BSrv.td`.
-/
namespace Iodine.Server
open Iodine Iodine.Gen

/-- the server process: session state and the two static counters of `write_dns_nameenc` -/
structure BSrv where
  srv : Srv
  td : WriteDns.Td
deriving DecidableEq, Repr

/-- what `select` reports readable, at byte level -/
inductive BInput where
  | dgram (src : Addr) (bytes : List Nat)   -- a datagram on the DNS socket (v4 or v6 by the family of `src`)
  | tun (frame : List Nat)
  | bind (bytes : List Nat)                 -- a datagram on the forward socket
  | tick
deriving Repr

/-- what leaves the process -/
inductive BEvent where
  | tx (dst : Addr) (bytes : List Nat)      -- the `sendto` of `write_dns`
  | raw (dst : Addr) (bytes : List Nat)     -- `send_raw`
  | tunw (frame : List Nat)                 -- `write_tun`
  | fwd (dst : Addr) (bytes : List Nat)     -- `forward_query`'s `sendto` on the forward socket
  | rly (dst : Addr) (bytes : List Nat)     -- `tunnel_bind`'s relay of a reply
  | nsa (dst : Addr) (bytes : List Nat)     -- the `sendto` of `handle_ns_request` / `handle_a_request`
deriving DecidableEq, Repr

/-! ### receive side: `read_dns` -/

/-- `q->destination` as the control message reports it: the local address of the socket's family, port 0
(the harness chooses the v4/v6 socket by the family of the sender) -/
def destOf (cfg : Config) (src : Addr) : Addr :=
  if src.fam = 4 then ⟨4, cfg.dest4, 0⟩ else ⟨6, cfg.dest6, 0⟩

/-- `*q` when `read_dns` returns: zeroed, `from`, the fields `dns_decode` set, `destination` -/
def queryOfDecoded (cfg : Config) (src : Addr) (d : Wire.Decoded) : Query :=
  { name := d.name, type := d.type, id := d.id, from_ := src, id2 := 0, from2 := Addr.zero, dest := destOf cfg src }

/-- the receive buffer of `read_dns` holding datagram `pkt` (already cut to 64 KiB) over residue `res` -/
def rxBuf (res : Array Nat) (pkt : List Nat) : Wire.RxBuf := { pkt := pkt.toArray, res := res, cap := 65536 }

/-- `read_dns` with the bytes `res` left in `packet[]` by earlier calls: what the rest of the iteration works on.
`Input.rawf` = `raw_decode` took the datagram; `Input.q` = a decoded query; `Input.tick` = dropped. -/
def decodeInputR (res : Array Nat) (s : Srv) (src : Addr) (bytes : List Nat) : Except Wire.Fault Input :=
  -- recvmsg into `packet[64*1024]`
  let pkt := bytes.take 65536
  -- `if (r > 0)`
  if pkt.length = 0 then .ok .tick
  -- `raw_decode(packet, r, q, …)` returns 1
  else if (rawDecode s pkt src).isSome then .ok (.rawf src pkt)
  else do
    let d ← Wire.dnsDecodeQuery (rxBuf res pkt)
    -- `dns_decode(…) <= 0`: return 0
    if d.rv ≤ 0 then .ok .tick else .ok (.q (queryOfDecoded s.cfg src d))

/-- `read_dns` (a fault of the decoder — there is none, Props/C12 — would be a dropped datagram here) -/
def decodeInput (s : Srv) (src : Addr) (bytes : List Nat) : Input :=
  match decodeInputR #[] s src bytes with
  | .ok i => i
  | .error _ => .tick

/-- the input of the session machine for a byte-level input -/
def toInput (s : Srv) : BInput → Input
  | .dgram src bytes => decodeInput s src bytes
  | .tun frame => .tun frame
  | .bind bytes => .bind bytes
  | .tick => .tick

/-! ### send side -/

/-- what is handed to `sendto` for the result of an encoder: nothing when `len < 1` -/
def sent (r : Wire.Put.R (List Nat)) : Option (List Nat) :=
  match r with
  | .ok pkt => if pkt.length < 1 then none else some pkt
  | _ => none

/-- `q->destination` as `dns_encode_ns_response` / `dns_encode_a_response` see it after the `ns_ip` override of
`handle_ns_request` / `handle_a_request`: the four address bytes if the family is AF_INET -/
def nsDest (cfg : Config) (q : Query) : Option (List Nat) :=
  if cfg.nsIp ≠ 0 then some (beBytes 4 cfg.nsIp)
  else if q.dest.fam = 4 then some (beBytes 4 q.dest.ip)
  else none

/-- `handle_ns_request(dns_fd, q, topdomain_offset)`: `dns_encode_ns_response(buf[64K], q, q->name + topdomain_offset)` -/
def nsResponse (cfg : Config) (q : Query) (dlen : Nat) : Option (List Nat) :=
  sent (Wire.DnsEncode.dnsEncodeNsResponse 65536 q.id q.type q.name (q.name.drop dlen) (nsDest cfg q))

/-- `handle_a_request(dns_fd, q, fakeip)`: `dns_encode_a_response(buf[64K], q)` with the destination overwritten by
127.0.0.1 (`fakeip`) or `ns_ip`; nothing is sent when the destination is not IPv4 -/
def aResponse (cfg : Config) (q : Query) (fakeip : Bool) : Option (List Nat) :=
  sent (Wire.DnsEncode.dnsEncodeAResponse 65536 q.id q.type q.name
    (if fakeip then some [127, 0, 0, 1] else nsDest cfg q))

/-- which of the two request handlers without a `write_dns` `tunnel_dns` calls for `q`, and what that sends -/
def nsaBytes (cfg : Config) (q : Query) : Option (List Nat) :=
  match Common.queryDatalen q.name cfg.topdomain with
  | none => none
  | some dlen =>
    let n (i : Nat) := q.name.getD i 0
    if dlen = 3 ∧ q.type = T_A ∧ (n 0 = 110 ∨ n 0 = 78) ∧ (n 1 = 115 ∨ n 1 = 83) ∧ n 2 = 46 then
      aResponse cfg q false
    else if dlen = 4 ∧ q.type = T_A ∧ (n 0 = 119 ∨ n 0 = 87) ∧ (n 1 = 119 ∨ n 1 = 87)
              ∧ (n 2 = 119 ∨ n 2 = 87) ∧ n 3 = 46 then
      aResponse cfg q true
    else if q.type = T_NS then nsResponse cfg q dlen
    else none

/-- `forward_query`: `dns_encode(buf[64K], q, QR_QUERY, q->name, strlen(q->name))`; `dnsc_use_edns0` keeps its
initial value 1 in the server -/
def fwdBytes (q : Query) : Option (List Nat) :=
  sent (Wire.DnsEncode.dnsEncodeQuery 65536 q.id q.type true q.name)

/-- the datagrams one event of the session machine stands for; `q?` is the query `read_dns` decoded in this iteration
(`nsa` and `fwd` only happen in the handler of such a query).  An `ans` whose encoding has `len < 1` sends nothing. -/
def encodeEvent (cfg : Config) (q? : Option Query) (td : WriteDns.Td) : Event → WriteDns.Td × List BEvent
  | .ans dst id ty dn name data _ =>
    let r := WriteDns.writeDns td (id, ty, name) data dn
    (r.1, match r.2 with
          | some pkt => [BEvent.tx dst pkt]
          | none => [])
  | .raw dst b => (td, [BEvent.raw dst b])
  | .tunw f => (td, [BEvent.tunw f])
  | .rly dst b => (td, [BEvent.rly dst b])
  | .fwd dst =>
    (td, match q?.bind fwdBytes with
         | some b => [BEvent.fwd dst b]
         | none => [])
  | .nsa dst =>
    (td, match q?.bind (nsaBytes cfg) with
         | some b => [BEvent.nsa dst b]
         | none => [])
  | .sweep => (td, [])
  | .tunskip => (td, [])

/-- every event with the datagrams it stands for, in order; the static counters are threaded through -/
def encodeEventsL (cfg : Config) (q? : Option Query) : WriteDns.Td → List Event → WriteDns.Td × List (Event × List BEvent)
  | td, [] => (td, [])
  | td, e :: rest =>
    let r := encodeEvent cfg q? td e
    let t := encodeEventsL cfg q? r.1 rest
    (t.1, (e, r.2) :: t.2)

/-- the query of an input, if it is one -/
def queryOf : Input → Option Query
  | .q q => some q
  | _ => none

/-- everything that leaves the process for the events of one iteration on input `inp` -/
def encodeEvents (cfg : Config) (td : WriteDns.Td) (inp : Input) (evs : List Event) : WriteDns.Td × List BEvent :=
  let r := encodeEventsL cfg (queryOf inp) td evs
  (r.1, r.2.flatMap (·.2))

/-- One iteration of `tunnel()` at byte level: `read_dns` / `read_tun` / `recvfrom`, the session machine, the encoders.
Result: state, what was sent (in order), select timeout, tunsel. -/
def biteration (b : BSrv) (inp : BInput) (now' : Nat) : BSrv × List BEvent × (Nat × Bool) :=
  let i := toInput b.srv inp
  let r := iteration b.srv i now'
  let e := encodeEvents b.srv.cfg b.td i r.2.1
  (⟨r.1, e.1⟩, e.2, r.2.2)

/-- the same iteration with `read_dns` running over an arbitrary residue `res` in its receive buffer; a fault of the
decoder is `none` (Props/C12.lean: it is always `some (biteration …)`) -/
def biterationR (res : Array Nat) (b : BSrv) (inp : BInput) (now' : Nat) : Option (BSrv × List BEvent × (Nat × Bool)) :=
  let go (i : Input) : BSrv × List BEvent × (Nat × Bool) :=
    let r := iteration b.srv i now'
    let e := encodeEvents b.srv.cfg b.td i r.2.1
    (⟨r.1, e.1⟩, e.2, r.2.2)
  match inp with
  | .dgram src bytes =>
    match decodeInputR res b.srv src bytes with
    | .ok i => some (go i)
    | .error _ => none
  | .tun frame => some (go (.tun frame))
  | .bind bytes => some (go (.bind bytes))
  | .tick => some (go .tick)

/-- the process right after start-up: `td1 = td2 = 0` -/
def bstart (cfg : Config) (rnd : List Nat) : BSrv := ⟨start cfg rnd, (0, 0)⟩

/-- states reachable from start-up by byte-level iterations with arbitrary inputs and non-decreasing clock -/
inductive BReachable (cfg : Config) : BSrv → Prop where
  | init (rnd : List Nat) : BReachable cfg (bstart cfg rnd)
  | step {b : BSrv} (inp : BInput) (now' : Nat) : BReachable cfg b → b.srv.now ≤ now' →
      BReachable cfg (biteration b inp now').1

/-- a run of the process: in every iteration an input and the value of the clock after `select` -/
def brun : BSrv → List (BInput × Nat) → BSrv
  | b, [] => b
  | b, (i, n) :: rest => brun (biteration b i n).1 rest

/-- the steps of the session machine such a run goes through: what `read_dns` handed on in each iteration -/
def bsteps : BSrv → List (BInput × Nat) → List Step
  | _, [] => []
  | b, (i, n) :: rest => ⟨toInput b.srv i, n⟩ :: bsteps (biteration b i n).1 rest

end Iodine.Server
