import IodineModel.Server.Loop
/-
Runs of the server model: the framework the session properties (C03 C04 C14 C15 C16) are stated in.

One `Step` = one iteration of `tunnel()`: what `select` reported (`Input`) and the value of `time()` after
`select` returned.  `run` folds `iteration` over a list of steps from the state right after start-up and
collects, per iteration, the input and the events it produced (the TRACE).  `Reachable` is the set of states
a run can be in; an invariant is proved by `Reachable.induction`-style arguments: it holds for `Srv.init` and
is preserved by `iteration` for EVERY input and clock value.

The clock is monotone in real life; the properties that need it say so explicitly (`Step.now ≥ s.now`).
-/
namespace Iodine.Server
open Iodine

/-- one loop iteration as the environment sees it -/
structure Step where
  inp : Input
  now : Nat            -- `time(NULL)` from `select`'s return to the end of the iteration

/-- the state after one iteration -/
def next (s : Srv) (st : Step) : Srv := (iteration s st.inp st.now).1

/-- the events of one iteration -/
def out (s : Srv) (st : Step) : List Event := (iteration s st.inp st.now).2.1

/-- one element of a trace: the step, the events it produced, the state before and after (the states are
there for the statements of invariants; monitors that are meant to run on the implementation's trace use
`inp`, `now` and `events` only) -/
structure TraceStep where
  step : Step
  pre : Srv
  events : List Event
  post : Srv

/-- trace of a run from `s` -/
def traceFrom : Srv → List Step → List TraceStep
  | _, [] => []
  | s, st :: rest => ⟨st, s, out s st, next s st⟩ :: traceFrom (next s st) rest

/-- final state of a run from `s` -/
def runFrom : Srv → List Step → Srv
  | s, [] => s
  | s, st :: rest => runFrom (next s st) rest

/-- the server right after start-up with configuration `cfg` (as the harness op `cfg` builds it), with a
queue `rnd` of values `rand()` will return -/
def start (cfg : Config) (rnd : List Nat) : Srv := { Srv.init cfg cfg.netmask with rand := rnd }

/-- states reachable from start-up by loop iterations with arbitrary inputs and non-decreasing clock -/
inductive Reachable (cfg : Config) : Srv → Prop where
  | init (rnd : List Nat) : Reachable cfg (start cfg rnd)
  | step {s : Srv} (st : Step) : Reachable cfg s → s.now ≤ st.now → Reachable cfg (next s st)

/-- a run with non-decreasing clock -/
def Monotone : Srv → List Step → Prop
  | _, [] => True
  | s, st :: rest => s.now ≤ st.now ∧ Monotone (next s st) rest

theorem reachable_runFrom {cfg : Config} {s : Srv} (h : Reachable cfg s) :
    ∀ (steps : List Step), Monotone s steps → Reachable cfg (runFrom s steps) := by
  intro steps
  induction steps generalizing s with
  | nil => intro _; exact h
  | cons st rest ih =>
    intro hm
    exact ih (Reachable.step st h hm.1) hm.2

/-- every element of a monotone run's trace starts in a reachable state -/
theorem reachable_of_mem_trace {cfg : Config} {s : Srv} (h : Reachable cfg s) :
    ∀ (steps : List Step), Monotone s steps → ∀ t ∈ traceFrom s steps, Reachable cfg t.pre ∧ t.pre.now ≤ t.step.now ∧
      t.events = out t.pre t.step ∧ t.post = next t.pre t.step := by
  intro steps
  induction steps generalizing s with
  | nil => intro _ t ht; simp [traceFrom] at ht
  | cons st rest ih =>
    intro hm t ht
    simp only [traceFrom, List.mem_cons] at ht
    rcases ht with rfl | ht
    · exact ⟨h, hm.1, rfl, rfl⟩
    · exact ih (Reachable.step st h hm.1) hm.2 t ht

/-- An invariant that holds at start-up and is preserved by every iteration holds in every reachable state. -/
theorem Reachable.inv {cfg : Config} (I : Srv → Prop) (h0 : ∀ rnd, I (start cfg rnd))
    (hstep : ∀ s st, Reachable cfg s → I s → s.now ≤ st.now → I (next s st)) :
    ∀ s, Reachable cfg s → I s := by
  intro s h
  induction h with
  | init rnd => exact h0 rnd
  | step st hr hle ih => exact hstep _ st hr ih hle

end Iodine.Server
