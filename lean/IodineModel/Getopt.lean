import IodineModel.Client.Shell
/-
Pieces of libc that the two `main()` functions (src/iodined.c, src/iodine.c) are written on top of:

* glibc `getopt(argc, argv, optstring)` for an option string WITHOUT a leading `+`, `-` or `:` and with `POSIXLY_CORRECT` unset
  (the default "permute" mode): options are recognised anywhere on the command line, `--` ends them, what is left at
  `argv + optind` after the loop are the non-options in their original order;
* `atoi` (glibc: `(int) strtol(nptr, NULL, 10)`), `inet_addr` (glibc `inet_aton` without the end-of-string test),
  `inet_pton(AF_INET)` with its value, `strncpy` / `snprintf("%s")` / `strlen` on a fixed-size buffer.

Strings are NUL-free `List Nat` (conventions: docs/LEAN_CONVENTIONS.md).
-/
namespace Iodine.Getopt
open Iodine.Client.Shell (isSpace isDigit scanSign digitsVal strtolSat toInt32)

/-! ### getopt -/

/-- What `getopt` returns for one call (the value of `optarg` included). -/
inductive Opt where
  | flag (c : Nat)                    -- option character without argument
  | arg (c : Nat) (a : List Nat)      -- option character with its argument (`optarg`)
  | bad                               -- `'?'`: unknown option character, or the argument of the last option is missing
deriving DecidableEq, Repr

/-- `strchr(optstring, c)` and the character behind it: `none` = not an option (also for `:` and `;`, which glibc
refuses explicitly), `some true` = takes an argument. -/
def kindOf : List Nat → Nat → Option Bool
  | [], _ => none
  | o :: rest, c =>
    if o = c ∧ c ≠ 58 ∧ c ≠ 59 then some (rest.head? = some 58)
    else kindOf rest c

/-- how the scan of one `-xyz` element ends -/
inductive ClusterEnd where
  | done                              -- all characters consumed
  | needArg (c : Nat)                 -- the last character takes an argument: it is the next element of argv
  | bad                               -- unknown option character
deriving DecidableEq, Repr

/-- the option characters of ONE argv element (without its leading `-`) -/
def cluster (os : List Nat) : List Nat → List Opt × ClusterEnd
  | [] => ([], .done)
  | c :: cs =>
    match kindOf os c with
    | none => ([], .bad)
    | some false => let r := cluster os cs; (.flag c :: r.1, r.2)
    | some true => if cs = [] then ([], .needArg c) else ([.arg c cs], .done)

/-- The whole `while ((choice = getopt(...)) != -1)` sequence over `argv[1..]`: the values returned, in order, up to and including
the first `'?'` (both `main()`s leave the loop through `usage()` there), and `argv + optind` after the loop (meaningless after a
`'?'`).  `nonopts` = the non-options skipped so far, in reverse. -/
def scan (os : List Nat) : List (List Nat) → List (List Nat) → List Opt × List (List Nat)
  | [], nonopts => ([], nonopts.reverse)
  | a :: rest, nonopts =>
    if a = [45, 45] then ([], nonopts.reverse ++ rest)
    else if a.head? = some 45 ∧ 2 ≤ a.length then
      match cluster os (a.drop 1) with
      | (opts, .done) => let r := scan os rest nonopts; (opts ++ r.1, r.2)
      | (opts, .bad) => (opts ++ [.bad], [])
      | (opts, .needArg c) =>
        match rest with
        | [] => (opts ++ [.bad], [])
        | x :: rest' => let r := scan os rest' nonopts; (opts ++ .arg c x :: r.1, r.2)
    else scan os rest (a :: nonopts)

/-- `getopt` loop over a whole `argv` (`argv[0]` is the program name) -/
def getoptAll (os : List Nat) (argv : List (List Nat)) : List Opt × List (List Nat) := scan os (argv.drop 1) []

/-! ### numbers and addresses -/

/-- glibc `atoi` = `(int) strtol(s, NULL, 10)`: white space, one optional sign, the leading decimal digits (none: 0); `strtol`
saturates at `LONG_MIN/LONG_MAX` (64-bit `long`), the conversion to `int` keeps the low 32 bits.  (ISO C leaves the behaviour
on overflow undefined; what is modelled is what glibc does and what the differential check observes.) -/
def atoi (s : List Nat) : Int :=
  let s1 := s.dropWhile isSpace
  let p := scanSign s1
  toInt32 (strtolSat p.1 (digitsVal (p.2.takeWhile isDigit)))

def hexVal (c : Nat) : Option Nat :=
  if 48 ≤ c ∧ c ≤ 57 then some (c - 48)
  else if 97 ≤ c ∧ c ≤ 102 then some (c - 87)
  else if 65 ≤ c ∧ c ≤ 70 then some (c - 55)
  else none

/-- leading digits of `s` valid in `base` (8, 10 or 16): their value and the unread rest -/
def digitsIn (base : Nat) : List Nat → Nat → Nat × List Nat
  | [], acc => (acc, [])
  | c :: cs, acc =>
    match hexVal c with
    | some d => if d < base then digitsIn base cs (acc * base + d) else (acc, c :: cs)
    | none => (acc, c :: cs)

/-- `strtoul(s, &end, 0)` on a string that starts with a decimal digit (glibc 2.36: no `0b`): value and rest.
`0x`/`0X` followed by a hex digit: base 16; otherwise a leading `0`: base 8 (the `0` itself is the first digit, so `08` is
`0` with rest `8`, and `0x` followed by no hex digit is `0` with rest `x…`); otherwise base 10.  No saturation: the
callers reject every value above `0xffffffff`, which is also what they do with `ULONG_MAX`. -/
def strtoul0 (s : List Nat) : Nat × List Nat :=
  match s with
  | 48 :: x :: h :: rest =>
    if (x = 120 ∨ x = 88) ∧ (hexVal h).isSome then digitsIn 16 (h :: rest) 0 else digitsIn 8 s 0
  | 48 :: _ => digitsIn 8 s 0
  | _ => digitsIn 10 s 0

/-- the loop of glibc `inet_aton_end`: `bytes` = the parts stored so far (most significant first), `n` = how many more
parts may follow (4 at the start) -/
def atonGo : Nat → List Nat → List Nat → Option Nat
  | 0, _, _ => none
  | n + 1, bytes, s =>
    match s.head? with
    | none => none
    | some c =>
    if !isDigit c then none
    else
      let r := strtoul0 s
      if r.1 > 0xffffffff then none
      else
        match r.2 with
        | 46 :: rest' =>
          if bytes.length ≥ 3 ∨ r.1 > 255 then none
          else atonGo n (bytes ++ [r.1]) rest'
        | tail =>
          -- trailing characters: NUL (end) or ASCII white space, whatever follows it
          if (match tail.head? with | none => false | some t => !(decide (t < 128) && isSpace t)) then none
          else
            let max := [0xffffffff, 0xffffff, 0xffff, 0xff].getD bytes.length 0
            if r.1 > max then none
            else some (bytes.foldl (fun acc b => acc * 256 + b) 0 * 2 ^ (8 * (4 - bytes.length)) + r.1)

/-- `ntohl(inet_addr(s))`: host-order value, `0xffffffff` (`INADDR_NONE`) for a string `inet_aton` rejects — and for
`255.255.255.255`. -/
def inetAddr (s : List Nat) : Nat := (atonGo 4 [] s).getD 0xffffffff

/-- glibc `inet_pton4` with its value (host order); same loop as `Client.Shell.pton4Go` -/
def pton4Val (saw : Bool) (oct cur acc : Nat) : List Nat → Option Nat
  | [] => if oct = 4 then some (acc * 256 + cur) else none
  | ch :: rest =>
    if 48 ≤ ch ∧ ch ≤ 57 then
      let new := cur * 10 + (ch - 48)
      if saw ∧ cur = 0 then none
      else if new > 255 then none
      else if saw then pton4Val true oct new acc rest
      else if oct + 1 > 4 then none
      else pton4Val true (oct + 1) new acc rest
    else if ch = 46 ∧ saw then
      if oct = 4 then none else pton4Val false oct 0 (acc * 256 + cur) rest
    else none

def inetPton4Val (s : List Nat) : Option Nat := pton4Val false 0 0 0 s

/-! ### fixed-size character buffers -/

/-- `strncpy(buf, src, n)` into a buffer of at least `n` bytes (`buf.length ≥ n`): `n` bytes are written, the string and then
zeros -/
def strncpy (buf : List Nat) (src : List Nat) (n : Nat) : List Nat := (src ++ List.replicate n 0).take n ++ buf.drop n

/-- `snprintf(buf, n, "%s", src)`: at most `n-1` characters and ONE terminating NUL; the rest of the buffer keeps its old
contents -/
def snprintfS (buf : List Nat) (src : List Nat) (n : Nat) : List Nat :=
  let k := min src.length (n - 1)
  src.take k ++ [0] ++ buf.drop (k + 1)

/-- `strlen(buf)` -/
def strlen (buf : List Nat) : Nat := (buf.takeWhile (· ≠ 0)).length

/-- `strcasecmp(a, b) == 0` for ASCII -/
def lower (c : Nat) : Nat := if 65 ≤ c ∧ c ≤ 90 then c + 32 else c
def caseEq (a b : List Nat) : Bool := a.map lower == b.map lower

def ascii (s : String) : List Nat := s.toList.map Char.toNat

/-! ### what the two `main()`s do to the operating system, and how they end -/

/-- The password block shared by both `main()`s:
`if (strlen(password) == 0) { if (getenv(VAR)) snprintf(password, 33, "%s", getenv(VAR)); else read_password(password, 33); }`
with `read_password` = `char pwd[80] = {0}; fscanf(stdin, "%79[^\n]", pwd); strncpy(buf, pwd, len); buf[len-1] = 0`.
Second component: did `read_password` run. -/
def passwordPhase (envPass : Option (List Nat)) (typed : List Nat) (pw : List Nat) : List Nat × Bool :=
  if strlen pw = 0 then
    match envPass with
    | some e => (snprintfS pw e 33, false)
    | none =>
      let line := (typed.takeWhile (· ≠ 10)).take 79
      ((strncpy pw line 33).set 32 0, true)
  else (pw, false)

/-- A call of a function that the harness substitutes (harness/h_srv.c, harness/h_cli.c, op `main`), in the order of the calls.
`fam`: 0 = `AF_UNSPEC`, 4, 6.  Strings: `none` = `NULL`. -/
inductive Ev where
  | ga (fam : Nat) (host : Option (List Nat)) (port : Int) (flags : Nat)     -- get_addr
  | odh (host : Option (List Nat)) (port : Int) (fam : Nat) (flags : Nat)    -- open_dns_from_host
  | extq                                                                     -- sendto of get_external_ip
  | cd (fd : Int)                                                            -- close_dns
  | ct (fd : Int)                                                            -- close_tun
  | prompt                                                                   -- read_password reads the terminal
  | tun (dev : Option (List Nat))                                            -- open_tun
  | setip (ip other : List Nat) (netbits : Int)                              -- tun_setip
  | setmtu (mtu : Int)                                                       -- tun_setmtu
  | sd                                                                       -- sd_listen_fds
  | warn (tag : String)                                                      -- a warnx that is not followed by an exit
  | od4 (ip port len : Nat)                                                  -- open_dns on the IPv4 listen address
  | od6 (port len : Nat) (v6only : Int)                                      -- open_dns_opt on the IPv6 listen address
  | detach
  | pidfile (f : List Nat)
  | chroot (d : List Nat)
  | setuid (uid : Nat)
  | setcon (c : List Nat)
  | started (port : Int)                                                     -- syslog("started, listening on port %d")
  | tunnel (tunFd v4 v6 bindFd idle : Int)                                   -- server: tunnel() is called with these arguments
  | resolvconf                                                               -- client: get_resolvconf_addr
  | hs (dnsFd : Int) (raw autofrag : Bool) (fragsize : Int)                  -- client: client_handshake() is called
  | ctunnel (tunFd dnsFd : Int)                                              -- client: client_tunnel() is called
deriving DecidableEq, Repr

/-- how `main()` ends: `exit(code)` from `usage()/help()/version()` or directly (with the class of the last message), `errx`,
or `return code` — before (`ret`) or after (`run`) the tunnel / handshake was entered -/
inductive Outcome where
  | exit (code : Int) (cls : String)
  | errx (code : Int) (cls : String)
  | ret (code : Int)
  | run (code : Int)
deriving DecidableEq, Repr

/-- the exits of the option loop and of the validation: never `run` -/
inductive Exit where
  | exit (code : Int) (cls : String)
  | errx (code : Int) (cls : String)
deriving DecidableEq, Repr

def Exit.toOutcome : Exit → Outcome
  | .exit c s => .exit c s
  | .errx c s => .errx c s

end Iodine.Getopt
