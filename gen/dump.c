/* Tie 1: dumps tables and constants from the CURRENT /repo/src sources as Lean
 * definitions.  Compiled once per WHICH_* section because the codec files all
 * define a static `reverse_init`. */
#include <stdio.h>
#include <string.h>
#include <stddef.h>

static void dump_bytes(const char *name, const unsigned char *p, size_t n)
{
	size_t i;
	printf("def %s : List Nat := [", name);
	for (i = 0; i < n; i++)
		printf("%s%u", i ? ", " : "", (unsigned) p[i]);
	printf("]\n");
}

#if defined(WHICH_B32)
#include "base32.c"
int main(void)
{
	dump_bytes("cb32", (const unsigned char *) cb32, sizeof(cb32) - 1);
	dump_bytes("cb32u", (const unsigned char *) cb32_ucase, sizeof(cb32_ucase) - 1);
	printf("def b32BlkRaw : Nat := %d\ndef b32BlkEnc : Nat := %d\n",
	       base32_ops.blocksize_raw, base32_ops.blocksize_encoded);
	printf("def b32PlacesDots : Bool := %s\ndef b32EatsDots : Bool := %s\n",
	       base32_ops.places_dots ? "true" : "false", base32_ops.eats_dots ? "true" : "false");
	return 0;
}
#elif defined(WHICH_B64)
#include "base64.c"
int main(void)
{
	dump_bytes("cb64", (const unsigned char *) cb64, sizeof(cb64) - 1);
	printf("def b64BlkRaw : Nat := %d\ndef b64BlkEnc : Nat := %d\n",
	       base64_ops.blocksize_raw, base64_ops.blocksize_encoded);
	printf("def b64PlacesDots : Bool := %s\ndef b64EatsDots : Bool := %s\n",
	       base64_ops.places_dots ? "true" : "false", base64_ops.eats_dots ? "true" : "false");
	return 0;
}
#elif defined(WHICH_B64U)
#include "base64u.c"
int main(void)
{
	dump_bytes("cb64u", (const unsigned char *) cb64, sizeof(cb64) - 1);
	printf("def b64uBlkRaw : Nat := %d\ndef b64uBlkEnc : Nat := %d\n",
	       base64u_ops.blocksize_raw, base64u_ops.blocksize_encoded);
	printf("def b64uPlacesDots : Bool := %s\ndef b64uEatsDots : Bool := %s\n",
	       base64u_ops.places_dots ? "true" : "false", base64u_ops.eats_dots ? "true" : "false");
	return 0;
}
#elif defined(WHICH_B128)
#include "base128.c"
int main(void)
{
	dump_bytes("cb128", (const unsigned char *) cb128, sizeof(cb128) - 1);
	printf("def b128BlkRaw : Nat := %d\ndef b128BlkEnc : Nat := %d\n",
	       base128_ops.blocksize_raw, base128_ops.blocksize_encoded);
	printf("def b128PlacesDots : Bool := %s\ndef b128EatsDots : Bool := %s\n",
	       base128_ops.places_dots ? "true" : "false", base128_ops.eats_dots ? "true" : "false");
	return 0;
}
#elif defined(WHICH_CONST)
#include <stdint.h>
#include <sys/types.h>
#include <sys/socket.h>
#include <netinet/in.h>
#include <arpa/inet.h>
#include <arpa/nameser.h>
#include <time.h>
#include "common.h"
#include "encoding.h"
#include "user.h"
#include "fw_query.h"
#include "version.h"
#include "dns.h"
int main(void)
{
	struct packet pk;
	struct tun_user tu;
	printf("def USERS : Nat := %d\n", USERS);
	printf("def OUTPACKETQ_LEN : Nat := %d\n", OUTPACKETQ_LEN);
	printf("def DNSCACHE_LEN : Nat := %d\n", DNSCACHE_LEN);
	printf("def QMEMPING_LEN : Nat := %d\n", QMEMPING_LEN);
	printf("def QMEMDATA_LEN : Nat := %d\n", QMEMDATA_LEN);
	printf("def FW_QUERY_CACHE_SIZE : Nat := %d\n", FW_QUERY_CACHE_SIZE);
	printf("def QUERY_NAME_SIZE : Nat := %d\n", QUERY_NAME_SIZE);
	printf("def PACKET_DATA_SIZE : Nat := %zu\n", sizeof(pk.data));
	printf("def DNSCACHE_ANSWER_SIZE : Nat := %zu\n", sizeof(tu.dnscache_answer[0]));
	printf("def PROTOCOL_VERSION : Nat := %u\n", (unsigned) PROTOCOL_VERSION);
	printf("def T_PRIVATE : Nat := %d\n", T_PRIVATE);
	printf("def T_UNSET : Nat := %d\n", T_UNSET);
	printf("def T_NULL : Nat := %d\ndef T_TXT : Nat := %d\ndef T_SRV : Nat := %d\ndef T_MX : Nat := %d\n"
	       "def T_CNAME : Nat := %d\ndef T_A : Nat := %d\ndef T_NS : Nat := %d\n",
	       T_NULL, T_TXT, T_SRV, T_MX, T_CNAME, T_A, T_NS);
	printf("def RAW_HDR_LEN : Nat := %d\n", RAW_HDR_LEN);
	printf("def RAW_HDR_CMD_LOGIN : Nat := %d\ndef RAW_HDR_CMD_DATA : Nat := %d\ndef RAW_HDR_CMD_PING : Nat := %d\n",
	       RAW_HDR_CMD_LOGIN, RAW_HDR_CMD_DATA, RAW_HDR_CMD_PING);
	printf("def RAW_HDR_CMD_MASK : Nat := %d\ndef RAW_HDR_USR_MASK : Nat := %d\n",
	       RAW_HDR_CMD_MASK, RAW_HDR_USR_MASK);
	dump_bytes("rawHeader", (const unsigned char *) raw_header, RAW_HDR_LEN);
	dump_bytes("DOWNCODECCHECK1", (const unsigned char *) DOWNCODECCHECK1, DOWNCODECCHECK1_LEN);
	return 0;
}
#else
#error "define WHICH_*"
#endif
