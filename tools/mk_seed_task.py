#!/usr/bin/env python3
"""mk_seed_task.py <PROP> <first_k>: (re)create the scratch worktree /tmp/seed_<PROP> and write /tmp/seed_<PROP>_out/TASK.md for a seeding sub-agent
(property text only; nothing from /verif).  Round 2 asks for mutants numbered first_k..first_k+2."""
import json, sys, os, subprocess, re
P, K = sys.argv[1], int(sys.argv[2])
V = os.path.dirname(os.path.dirname(os.path.abspath(__file__)))
prop = [json.loads(l) for l in open(V + "/properties.jsonl") if json.loads(l)["id"] == P][0]
wt, out = "/tmp/seed_%s" % P, "/tmp/seed_%s_out" % P
subprocess.run(["git", "-C", "/repo", "worktree", "remove", "--force", wt], capture_output=True)
subprocess.run(["git", "-C", "/repo", "worktree", "prune"])
subprocess.run(["git", "-C", "/repo", "worktree", "add", "--detach", wt, "HEAD"], check=True, capture_output=True)
os.makedirs(out, exist_ok=True)
old = open(out + "/TASK.md").read() if os.path.exists(out + "/TASK.md") else None
ks = "%d, %d, %d" % (K, K + 1, K + 2)
files = ", ".join(prop["anchors"]["files"])
two_party = P in ("C01", "C02", "C11")
hint = ""
if old:
    m = re.search(r"(Hint for the demonstration:.*?)\n\n## What I need", old, re.S)
    hint = (m.group(1) + "\n\n") if m else ""
text = f"""# Task: seed realistic property-breaking changes into a scratch copy of iodine

You are working in a scratch git worktree of the yarrick/iodine repository at {wt} (C99; build with `make -C {wt}`, unit tests with `make -C {wt} test` — needs the `check` library, already installed). Work ONLY inside {wt} and {out}. Do not look at or touch /repo, /verif or any other directory (in particular nothing under /verif may be read). Ignore the `#ifdef IODINE_VERIF` hook lines in src/iodined.c (leave them alone).

## The property (a semantic property users of iodine rely on)

**{prop['title']}**

{prop['statement']}

Quantifier: {prop['quantifier']['text']}

Where it lives: files {files}.

{hint}## What I need

THREE different, independent changes to the iodine source (each a separate small patch against the pristine worktree) such that, for each:
1. the tree still compiles without new warnings (`make`), and the existing unit-test suite still passes (`make test` reports 0 failures, 0 errors);
2. the property above is broken;
3. the breakage needs something SPECIFIC to manifest — a particular unusual input, a boundary value, a multi-step sequence of operations, a particular interleaving or timing, a particular configuration, or two cooperating sites that each look fine alone — NOT something that ordinary use, a casual smoke test or a few hundred random inputs would expose. This is a SECOND round: obvious single-site mutations (a flipped comparison on the main path, a dropped check that every request exercises) have been tried already; go for the corners — rarely taken branches, wrap-around and boundary arithmetic, state that survives a re-initialisation, behaviour that only differs after a timeout or for the 2nd/17th/… occurrence, interactions between two features, error paths. The change should look like a plausible refactoring, optimisation, clean-up or "fix" that a reviewer could wave through.
4. you provide a demonstration: a small C program (or script) `demo.c` + `run_demo.sh <checkout-path>` that builds against the sources of the given checkout (compile/link the needed src/*.c files; you may `#include` a .c file to reach static functions — e.g. `#define main iodined_main` then `#include "iodined.c"`; link with `-lz -lselinux -lsystemd`; for memory-safety properties build the demo with `-fsanitize=address,undefined -fno-sanitize-recover=all` so that the violation is visible as an abort), exits 0 on the pristine tree and non-zero with the change applied, printing what went wrong.

Make the three changes as different from each other as possible (different functions / mechanisms / trigger conditions).

## Deliverables
For k = {ks} create {out}/<k>/ containing: `patch.diff` (from `git diff` in the worktree, applies with `git apply` to the pristine tree), `demo.c` (or other demo files), `run_demo.sh` (usage: `run_demo.sh <checkout-path>`; must build in a temp dir, not inside the checkout), and `README.md` (what the change is, why it looks harmless, exactly what is needed for it to manifest, the commands you ran and their results on pristine and patched trees). (Directories with smaller numbers may exist from an earlier round: do not read or change them.)
Before finishing, verify each yourself: pristine → build ok, tests pass, demo exit 0; patched → build ok, tests pass, demo exit non-zero. Always restore the worktree afterwards (`git -C {wt} checkout -- . && git -C {wt} clean -fdq`). Final answer: a short summary of the three changes.
"""
open(out + "/TASK.md", "w").write(text)
print("ok", wt, out)
