#!/bin/sh
# build_h_srv.sh : builds harness/h_srv.c against /repo's current working tree (cached); prints the binary path
cd "$(dirname "$0")/.." && python3 - <<'PY'
import sys; sys.path.insert(0, "tools")
import vlib
print(vlib.build_srv())
PY
