"""Independent small protocol library used only to GENERATE inputs and to JUDGE outputs in the checks:
its own BaseN coders, DNS message builder and a strict RFC 1035 parser.  It shares no code with the Lean model
or with the C sources (third implementation)."""
import struct

CB32 = b"abcdefghijklmnopqrstuvwxyz012345"
CB64 = b"abcdefghijklmnopqrstuvwxyzABCDEFGHIJKLMNOPQRSTUVWXYZ-0123456789+"
CB64U = CB64[:-1] + b"_"
CB128 = (b"abcdefghijklmnopqrstuvwxyzABCDEFGHIJKLMNOPQRSTUVWXYZ0123456789" + bytes(range(0xBC, 0xFE)))
TABLES = {"b32": (5, CB32), "b64": (6, CB64), "b64u": (6, CB64U), "b128": (7, CB128)}

T_A, T_NS, T_CNAME, T_NULL, T_MX, T_TXT, T_SRV, T_OPT, T_PRIVATE = 1, 2, 5, 10, 15, 16, 33, 41, 65399
TYPES = {"NULL": T_NULL, "PRIVATE": T_PRIVATE, "TXT": T_TXT, "SRV": T_SRV, "MX": T_MX, "CNAME": T_CNAME, "A": T_A}


def enc(codec, data):
    k, tbl = TABLES[codec]
    bits = "".join("{:08b}".format(b) for b in data)
    bits += "0" * (-len(bits) % k)
    return bytes(tbl[int(bits[i:i + k], 2)] for i in range(0, len(bits), k))


def dec(codec, text):
    k, tbl = TABLES[codec]
    rev = {c: i for i, c in enumerate(tbl)}
    if codec == "b32":
        rev.update({c: i for i, c in enumerate(CB32.upper())})
    bits = "".join("{:0{}b}".format(rev.get(c, 0), k) for c in text)
    return bytes(int(bits[i:i + 8], 2) for i in range(0, len(bits) - len(bits) % 8, 8))


def b32_5to8(v):
    return CB32[v & 31]


def dotify(s):
    out = bytearray()
    for i, c in enumerate(s):
        out.append(c)
        if (i + 1) % 57 == 0:
            out.append(0x2e)
    return bytes(out)


# ----------------------------------------------------------------------------- DNS building

def wire_name(name):
    """dotted bytes -> wire labels (no compression)"""
    out = bytearray()
    if name:
        for lab in name.split(b"."):
            out.append(len(lab)); out += lab
    out.append(0)
    return bytes(out)


def header(id_, flags, qd, an, ns=0, ar=0):
    return struct.pack(">HHHHHH", id_ & 0xffff, flags, qd, an, ns, ar)


def question(name, qtype, qclass=1):
    return wire_name(name) + struct.pack(">HH", qtype, qclass)


def rr(owner_wire, rtype, rdata, ttl=0, rclass=1):
    return owner_wire + struct.pack(">HHIH", rtype, rclass, ttl, len(rdata)) + rdata


def query(id_, name, qtype, edns=True):
    m = header(id_, 0x0100, 1, 0, 0, 1 if edns else 0) + question(name, qtype)
    if edns:
        m += b"\x00" + struct.pack(">HHIH", T_OPT, 4096, 0x00008000, 0)
    return m


def txt_rdata(data, chunk=252):
    out = bytearray()
    for i in range(0, len(data), chunk):
        c = data[i:i + chunk]
        out.append(len(c)); out += c
    return bytes(out)


def answer(id_, name, qtype, rdatas, atype=None, flags=0x8400):
    """answer with owner = pointer to the question name, one RR per element of rdatas"""
    m = header(id_, flags, 1, len(rdatas)) + question(name, qtype)
    for rd in rdatas:
        m += rr(b"\xc0\x0c", atype if atype is not None else qtype, rd)
    return m


# ----------------------------------------------------------------------------- strict RFC 1035 parser (judge)

class Malformed(Exception):
    pass


def _name(msg, off, starts, depth=0):
    """parse a possibly compressed name at off; returns (dotted bytes, next offset).  Pointers must point strictly
    backwards to a previously seen label start.  Labels 1..63, total wire length <= 255."""
    labels, wire, nxt, jumped = [], 0, None, False
    pos = off
    hops = 0
    while True:
        if pos >= len(msg):
            raise Malformed("name runs past the end")
        c = msg[pos]
        if c & 0xc0 == 0xc0:
            if pos + 1 >= len(msg):
                raise Malformed("truncated pointer")
            tgt = ((c & 0x3f) << 8) | msg[pos + 1]
            if not jumped:
                nxt = pos + 2
            if tgt >= pos or tgt not in starts:
                raise Malformed("pointer to %d is not backwards to a label boundary" % tgt)
            pos, jumped = tgt, True
            hops += 1
            if hops > 64:
                raise Malformed("pointer loop")
            continue
        if c & 0xc0:
            raise Malformed("label type %#x" % c)
        if not jumped:
            starts.add(pos)
        if c == 0:
            wire += 1
            if not jumped:
                nxt = pos + 1
            break
        if pos + 1 + c > len(msg):
            raise Malformed("label runs past the end")
        labels.append(bytes(msg[pos + 1:pos + 1 + c]))
        wire += 1 + c
        pos += 1 + c
    if wire > 255:
        raise Malformed("name longer than 255 bytes on the wire")
    return b".".join(labels), nxt


def parse(msg):
    """strict parse; returns dict(id, flags, qd=[(name,type,class)], an/ns/ar=[(name,type,class,ttl,rdata_parsed,raw)])"""
    if len(msg) < 12:
        raise Malformed("short header")
    id_, flags, qd, an, ns, ar = struct.unpack(">HHHHHH", msg[:12])
    off = 12
    starts = set()
    out = {"id": id_, "flags": flags, "qd": [], "an": [], "ns": [], "ar": []}
    for _ in range(qd):
        n, off = _name(msg, off, starts)
        if off + 4 > len(msg):
            raise Malformed("truncated question")
        t, c = struct.unpack(">HH", msg[off:off + 4]); off += 4
        out["qd"].append((n, t, c))
    for sec, cnt in (("an", an), ("ns", ns), ("ar", ar)):
        for _ in range(cnt):
            n, off = _name(msg, off, starts)
            if off + 10 > len(msg):
                raise Malformed("truncated RR header")
            t, c, ttl, rl = struct.unpack(">HHIH", msg[off:off + 10]); off += 10
            if off + rl > len(msg):
                raise Malformed("RDLENGTH %d exceeds the message" % rl)
            raw = bytes(msg[off:off + rl])
            if t == T_OPT and sec != "ar":
                raise Malformed("OPT outside additional")
            if t in (T_CNAME, T_NS):
                v, e = _name(msg, off, starts)
                if e != off + rl:
                    raise Malformed("RDLENGTH %d != name size %d" % (rl, e - off))
            elif t == T_MX:
                if rl < 3:
                    raise Malformed("short MX")
                v, e = _name(msg, off + 2, starts)
                v = (struct.unpack(">H", msg[off:off + 2])[0], v)
                if e != off + rl:
                    raise Malformed("RDLENGTH %d != MX size %d" % (rl, e - off))
            elif t == T_SRV:
                if rl < 7:
                    raise Malformed("short SRV")
                v, e = _name(msg, off + 6, starts)
                v = struct.unpack(">HHH", msg[off:off + 6]) + (v,)
                if e != off + rl:
                    raise Malformed("RDLENGTH %d != SRV size %d" % (rl, e - off))
            elif t == T_TXT:
                p, parts = 0, []
                while p < rl:
                    l = raw[p]
                    if p + 1 + l > rl:
                        raise Malformed("TXT string overruns RDLENGTH")
                    parts.append(raw[p + 1:p + 1 + l]); p += 1 + l
                if rl == 0:
                    raise Malformed("empty TXT")
                v = b"".join(parts)
            elif t == T_A:
                if rl != 4:
                    raise Malformed("A with RDLENGTH %d" % rl)
                v = raw
            else:
                v = raw
            out[sec].append((n, t, c, ttl, v, raw))
            off += rl
    if off != len(msg):
        raise Malformed("%d trailing bytes" % (len(msg) - off))
    return out
