#!/usr/bin/env python3
"""model_mutation.py: is the tie sensitive?  Each entry changes ONE expression of the hand-written Lean MODEL (in a scratch copy of /verif, never in
/verif itself), rebuilds, runs the quick check named, and records what the check reported first: an oracle violation (cannot happen: the code is
unchanged), a broken CORRESPONDENCE (wanted: the differential run sees that model and code disagree) or only a broken proof (the differential run
did not see it).  Result: docs/MODEL_MUTATION.md.  Not a registered check; takes ~1 min per entry."""
import os, sys, subprocess, shutil, json, tempfile
V = os.path.dirname(os.path.dirname(os.path.abspath(__file__)))
MUT = [
 # (id, file under lean/IodineModel, old, new, check, what)
 ("srv-live-60", "Server/Handle.lean", "x.lastPkt + 60 > now", "x.lastPkt + 61 > now", "C04", "session liveness window 60 s -> 61 s"),
 ("srv-expire-lt", "Server/Handle.lean", "else if x.lastPkt + 60 < s.now then true", "else if x.lastPkt + 60 ≤ s.now then true", "C04", "expiry test < -> <= (exactly 60 s)"),
 ("srv-resend-5", "Server/Handle.lean", "x.outfragresent > 5", "x.outfragresent > 6", "C15", "downstream resend limit 5 -> 6"),
 ("srv-fragsize-2047", "Server/Handle.lean", "req < 2 ∨ req > 2047", "req < 2 ∨ req > 2048", "C15", "largest probed fragment size 2047 -> 2048 (EQUIVALENT: the probe encodes the size in 11 bits, the bound is dead code in C and model)"),
 ("srv-fragsize-2", "Server/Handle.lean", "req < 2 ∨ req > 2047", "req < 3 ∨ req > 2047", "C15", "smallest probed fragment size 2 -> 3"),
 ("cli-resend-3", "Client/Tunnel.lean", "if c.outchunkresent < 3 then", "if c.outchunkresent < 4 then", "C02", "client resend limit 3 -> 4"),
 ("cli-tun-gate-2", "Client/Tunnel.lean", "decide (c.outchunkresent ≥ 2)", "decide (c.outchunkresent ≥ 3)", "C02", "tun read gate while resending 2 -> 3"),
 ("cli-60s", "Client/Tunnel.lean", "if c.lastdownstreamtime + 60 < c.now then", "if c.lastdownstreamtime + 61 < c.now then", "C02", "client give-up 60 s -> 61 s"),
 ("cli-keepalive", "Client/Tunnel.lean", "(c.lastrawping : Int) + c.selecttimeout ≤ (c.now : Int)", "(c.lastrawping : Int) + c.selecttimeout < (c.now : Int)", "C02", "raw keepalive due <= -> <"),
 ("rseq-window", "Server/Handle.lean", "def recentSeqno (our got : Int) : Bool := recentSeqnoLoop got 4 our", "def recentSeqno (our got : Int) : Bool := recentSeqnoLoop got 3 our", "C01", "server's recent-seqno window 4 -> 3"),
 ("wire-name-253", "Wire/DnsDecode.lean", "if (cstr name).length > 253 then", "if (cstr name).length > 254 then", "C12", "longest accepted query name 253 -> 254"),
 ("wire-jumps", "Wire/Read.lean", "readnameLoop b 10 src length", "readnameLoop b 11 src length", "C12", "readname compression-pointer budget 10 -> 11"),
 ("hs-lazy-retries", "Client/Handshake.lean", "if s.c.running ∧ i < 5 then s.park (sendLazySwitch s.c) evs (.lazy i)", "if s.c.running ∧ i < 6 then s.park (sendLazySwitch s.c) evs (.lazy i)", "C06", "lazy-switch handshake retries 5 -> 6"),
 ("hs-raw-retries", "Client/Handshake.lean", "if s.c.running ∧ i < 4 then s.park (sendRawUdpLogin s seed) evs (.rawLogin seed i)", "if s.c.running ∧ i < 3 then s.park (sendRawUdpLogin s seed) evs (.rawLogin seed i)", "C06", "raw login attempts 4 -> 3"),
 ("cli-cmc-36", "Client/Tunnel.lean", "if c.datacmc + 1 ≥ 36 then 0", "if c.datacmc + 1 ≥ 37 then 0", "C01", "data CMC cycle 36 -> 37"),
 ("cli-id-step", "Client/Tunnel.lean", "let id := (c.chunkid + 7727) % 65536", "let id := (c.chunkid + 7728) % 65536", "C02", "query id step 7727 -> 7728"),
 ("srv-login-len", "Server/Handle.lean", "if unpacked.length ≥ 18 ∧ logindata = (unpacked.drop 1).take 16 then", "if unpacked.length ≥ 17 ∧ logindata = (unpacked.drop 1).take 16 then", "C03", "login request minimum length 18 -> 17"),
 ("srv-userid-mask", "Server/Handle.lean", "let userid : Int := ((b1 >>> 1) &&& 15 : Nat)", "let userid : Int := ((b1 >>> 1) &&& 7 : Nat)", "C15", "user id mask of the fragsize probe 15 -> 7"),
 ("srv-cache-wrap", "Server/Handle.lean", "let fill := if x.dcLast + 1 ≥ DNSCACHE_LEN then 0 else x.dcLast + 1", "let fill := if x.dcLast + 2 ≥ DNSCACHE_LEN then 0 else x.dcLast + 1", "C16", "answer cache ring wrap off by one"),
]


def run(cmd, cwd, timeout=3000):
    return subprocess.run(cmd, cwd=cwd, stdout=subprocess.PIPE, stderr=subprocess.STDOUT, text=True, timeout=timeout)


def main():
    only = sys.argv[1:]
    scratch = tempfile.mkdtemp(prefix="iodmm.")
    W = os.path.join(scratch, "verif")
    subprocess.run(["rsync", "-a", "--exclude", ".cache", "--exclude", "replays", "--exclude", "seeded", V + "/", W + "/"], check=True)
    rows = []
    try:
        for mid, rel, old, new, chk, what in MUT:
            if old is None or (only and mid not in only):
                continue
            f = os.path.join(W, "lean", "IodineModel", rel)
            src = open(f).read()
            if src.count(old) != 1:
                rows.append((mid, what, chk, "SKIPPED: pattern occurs %d times" % src.count(old))); continue
            open(f, "w").write(src.replace(old, new, 1))
            try:
                r = run([os.path.join(W, "check"), chk, "--tier", "quick"], W)
                lines = [l for l in r.stdout.split("\n") if l.startswith("# ") or l.startswith("VIOLATION") or l.startswith("OK ")]
                first = next((l for l in lines if l.startswith("# ")), "")
                if any(l.startswith("OK ") for l in lines) and not any(l.startswith("VIOLATION") for l in lines):
                    verdict = "NOT SEEN (check passed)"
                elif "correspondence broken" in first:
                    verdict = "correspondence broken"
                elif "proof obligation" in first or "lake build failed" in first:
                    verdict = "only the proofs broke"
                else:
                    verdict = "reported as: " + first[2:120]
                rows.append((mid, what, chk, verdict))
                print(mid, "->", verdict, flush=True)
            finally:
                open(f, "w").write(src)
    finally:
        shutil.rmtree(scratch, ignore_errors=True)
    out = ["# Sensitivity of the tie: mutations of the MODEL\n",
           "Generated by `tools/model_mutation.py`: one expression of the hand-written Lean model is changed in a scratch copy (the C code is unchanged), the",
           "quick check named is run, and what it reported first is recorded. Wanted: *correspondence broken* — the differential run notices that model and",
           "code disagree. *only the proofs broke* means the theorems noticed but the differential run of that check did not exercise the difference.\n",
           "| mutation | change | check | outcome |", "|---|---|---|---|"]
    for mid, what, chk, verdict in rows:
        out.append("| %s | %s | %s | %s |" % (mid, what, chk, verdict))
    if not only:
        open(os.path.join(V, "docs", "MODEL_MUTATION.md"), "w").write("\n".join(out) + "\n")
    print("\n".join(out))


if __name__ == "__main__":
    main()
