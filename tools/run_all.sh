#!/bin/bash
# run_all.sh <tier> [seed]: every claimed check of MANIFEST.json, one after the other; summary lines only
cd "$(dirname "$0")/.."
T=${1:-quick}; S=${2:-1}
for p in $(python3 -c "import json;print(' '.join(c['property_id'] for c in json.load(open('MANIFEST.json'))['checks']))"); do
  /usr/bin/time -f "$p %e s" ./check $p --tier $T --seed $S 2>&1 | grep -v "WARNING\|^KNOWN" | tail -3 | cut -c1-400
done
