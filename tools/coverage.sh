#!/bin/bash
# Line coverage of /repo/src under the correspondence harnesses of all quick checks (informational: shows which code the tie-2 runs exercise).
# Not a registered check.  Scratch output in a temp dir outside /repo and /verif, removed at the end; result: docs/COVERAGE.md
set -u
V="$(cd "$(dirname "$0")/.." && pwd)"
COV="$(mktemp -d /tmp/iodcov.XXXXXX)"
export VERIF_COV="$COV" VERIF_NO_EVIDENCE=1
cd "$V"
for p in ${1:-C01 C02 C03 C04 C05 C06 C07 C08 C09 C10 C11 C12 C13 C14 C15 C16 C17 C18 C19 C20}; do
  ./check $p --tier quick 2>&1 | tail -1
done
python3 "$V/tools/coverage_report.py" "$COV" > "$V/docs/COVERAGE.md"
rm -rf "$COV"
head -40 "$V/docs/COVERAGE.md"
