#!/bin/bash
# verify_seed_free.sh <TAG> <k>: confirm a free-form mutant delivered in /tmp/seed_<TAG>_out/<k> (README.md first line "PROPERTY: Cnn")
# in the scratch worktree /tmp/seed_<TAG>; on success copy it to /verif/seeded/<Cnn>-<TAG><k>/ with meta.json.
T=$1; K=$2; WT=/tmp/seed_$T; OUT=/tmp/seed_${T}_out/$K
[ -f $OUT/patch.diff ] || { echo "no patch"; exit 2; }
P=$(head -3 $OUT/README.md | grep -o "C[0-9][0-9]" | head -1)
[ -n "$P" ] || { echo "no PROPERTY line"; exit 2; }
git -C $WT checkout -q -- . ; git -C $WT clean -fdq
make -s -C $WT >/dev/null 2>&1
bash $OUT/run_demo.sh $WT >/tmp/seed_v_pre.log 2>&1; PRE=$?
git -C $WT apply $OUT/patch.diff || { echo "patch does not apply"; exit 2; }
make -s -C $WT clean >/dev/null 2>&1; make -s -C $WT >/tmp/seed_v_build.log 2>&1; B=$?
TT=$(make -C $WT test 2>&1 | grep -c "Failures: 0, Errors: 0")
bash $OUT/run_demo.sh $WT >/tmp/seed_v_post.log 2>&1; POST=$?
git -C $WT checkout -q -- . ; git -C $WT clean -fdq
echo "$P-$T$K: pristine_demo=$PRE build=$B tests_pass=$TT patched_demo=$POST"
if [ $PRE -eq 0 ] && [ $B -eq 0 ] && [ "$TT" = "1" ] && [ $POST -ne 0 ]; then
  D=/verif/seeded/$P-$T$K; mkdir -p $D
  cp $OUT/patch.diff $D/; cp $OUT/*.c $OUT/*.h $OUT/*.sh $OUT/*.py $OUT/README.md $D/ 2>/dev/null
  tail -5 /tmp/seed_v_post.log > $D/demo_output_patched.txt
  python3 - "$P" "$T$K" "$D" <<'PY'
import json,sys,re
P,K,D=sys.argv[1:4]
readme=open(D+"/README.md").read()
meta={"property":P,"mutant":K,"source":"fresh sub-agent, free-form round: given the text of all 20 properties and a scratch worktree, chose property and place itself",
 "needs_to_manifest":re.sub(r"\s+"," ",readme)[:600],
 "confirmed":{"pristine_demo_exit":0,"patched_builds":True,"patched_unit_tests_pass":True,"patched_demo_exit_nonzero":True,"how":"tools/verify_seed_free.sh"}}
json.dump(meta,open(D+"/meta.json","w"),indent=1)
PY
  echo "kept $D"
else
  echo "REJECTED"; exit 1
fi
