#!/usr/bin/env python3
"""run_seeded.py [ids...]: apply each /verif/seeded/<id>/patch.diff to /repo, run the quick check of the
property it breaks (and optionally others with --also C05,C06), undo the patch, and record caught/missed in
/verif/seeded/RESULTS.json (with --seed=N: at that seed, into RESULTS_seed<N>.json).  /repo is always restored (git checkout -- .)."""
import json, os, subprocess, sys, glob
V = os.path.dirname(os.path.dirname(os.path.abspath(__file__)))
REPO = os.environ.get("IODINE_REPO", "/repo")
args = [a for a in sys.argv[1:] if not a.startswith("--")]
also = []
seed = None
resname = "RESULTS.json"
for a in sys.argv[1:]:
    if a.startswith("--also="):
        also = a[7:].split(",")
    if a.startswith("--seed="):
        # a robustness run at another seed: results go to RESULTS_seed<N>.json, RESULTS.json (seed 1) is left alone
        seed = a[7:]
        resname = "RESULTS_seed%s.json" % seed
ids = args or sorted(os.path.basename(d) for d in glob.glob(V + "/seeded/C*-*"))
resf = V + "/seeded/" + resname
res = json.load(open(resf)) if os.path.exists(resf) else {}
assert subprocess.run(["git", "-C", REPO, "status", "--porcelain", "--untracked-files=no"], capture_output=True, text=True).stdout.strip() == "", "/repo not clean"
for i in ids:
    d = V + "/seeded/" + i
    prop = json.load(open(d + "/meta.json"))["property"]
    r = subprocess.run(["git", "-C", REPO, "apply", d + "/patch.diff"], capture_output=True, text=True)
    if r.returncode:
        print(i, "patch does not apply:", r.stderr[:200]); res[i] = {"error": "patch does not apply"}; continue
    try:
        out = {}
        for p in [prop] + also:
            c = subprocess.run([V + "/check", p, "--tier", "quick"] + (["--seed", seed] if seed else []), capture_output=True, text=True, cwd=V)
            viol = [l for l in c.stdout.split("\n") if l.startswith("VIOLATION")]
            first = [l for l in c.stdout.split("\n") if l.startswith("# ")][:1]
            out[p] = {"exit": c.returncode, "violations": len(viol), "no_failing_input": any("no-failing-input-found" in l for l in viol),
                      "first": first[0][:300] if first else ""}
            print(i, p, "CAUGHT" if c.returncode == 1 and viol else "MISSED", out[p]["first"][:160])
        res[i] = out
        json.dump(res, open(resf, "w"), indent=1, sort_keys=True)
    finally:
        subprocess.run(["git", "-C", REPO, "checkout", "--", "."], check=True)
json.dump(res, open(resf, "w"), indent=1, sort_keys=True)
