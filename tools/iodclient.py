"""Independent Python mini-client: builds the query NAMES an iodine client sends (doc/proto_00000502.txt and
client.c send_*), the login hash (hashlib MD5 — independent of md5.c) and raw-mode frames.  Used only to GENERATE
inputs for the session harnesses; never as an oracle for the code under test."""
import hashlib, struct
import iodproto as P

RAW_HEADER = bytes([0x10, 0xd1, 0x9e, 0x00])
PROTOCOL_VERSION = 0x00000502
CMC_CHARS = b"abcdefghijklmnopqrstuvwxyz0123456789"
B32 = P.TABLES["b32"][1]


def b32c(v):
    return bytes([B32[v & 31]])


def login_hash(password, seed):
    pw = (password + b"\0" * 32)[:32]
    s = struct.pack(">I", seed & 0xffffffff) * 8
    return hashlib.md5(bytes(a ^ b for a, b in zip(pw, s))).digest()


def hostname(header, payload, topdomain, codec="b32", maxlen=255):
    """header chars + encoded payload, dotted, + "." + topdomain — the way build_hostname does it: the encoded part is
    capped so that the whole name stays within maxlen (the payload is truncated to what fits)."""
    k, _ = P.TABLES[codec]
    space = maxlen - len(topdomain) - 8
    space -= space // 57
    # largest number of payload bytes whose encoding fits in `space` characters
    n = min(len(payload), space * k // 8)
    text = P.enc(codec, payload[:n])
    d = P.dotify(text)
    if not d.endswith(b"."):
        d += b"."
    return header + d + topdomain, n


class Client:
    """Remembers what a client must remember to produce well-formed traffic."""

    def __init__(self, topdomain, password, rng, codec="b32", maxlen=255):
        self.td, self.pw, self.rng, self.codec, self.maxlen = topdomain, password, rng, codec, maxlen
        self.userid = 0
        self.seed = 0
        self.rand_seed = rng.randrange(65536)
        self.cmc = 0
        self.up_seq = 0
        self.up_frag = 0
        self.dn_seq = 0
        self.dn_frag = 0

    def _rs(self):
        v = struct.pack(">H", self.rand_seed & 0xffff)
        self.rand_seed += 1
        return v

    def version(self, version=PROTOCOL_VERSION):
        return hostname(b"v", struct.pack(">I", version) + self._rs(), self.td, maxlen=self.maxlen)[0]

    def login(self, seed=None, password=None, userid=None):
        h = login_hash(self.pw if password is None else password, self.seed if seed is None else seed)
        u = self.userid if userid is None else userid
        return hostname(b"l", bytes([u & 0xff]) + h + self._rs(), self.td, maxlen=self.maxlen)[0]

    def ping(self, userid=None, dn_seq=None, dn_frag=None):
        u = self.userid if userid is None else userid
        b = (((self.dn_seq if dn_seq is None else dn_seq) & 7) << 4) | ((self.dn_frag if dn_frag is None else dn_frag) & 15)
        return hostname(b"p", bytes([u & 0xff, b]) + self._rs(), self.td, maxlen=self.maxlen)[0]

    def hs(self, prefix):
        """send_handshake_query: prefix + 3 CMC chars + "." + topdomain"""
        r = self.rand_seed
        self.rand_seed += 1
        return prefix + b32c(r >> 10) + b32c(r >> 5) + b32c(r) + b"." + self.td

    def ip_request(self, userid=None):
        return self.hs(b"i" + b32c(self.userid if userid is None else userid))

    def switch_codec(self, bits, userid=None):
        return self.hs(b"s" + b32c(self.userid if userid is None else userid) + b32c(bits))

    def option(self, letter, userid=None):
        return self.hs(b"o" + b32c(self.userid if userid is None else userid) + letter)

    def downenc_test(self, letter, variant=1):
        return self.hs(b"y" + letter + b32c(variant))

    def upenc_test(self, s):
        r = self.rand_seed
        self.rand_seed += 1
        return b"z" + b32c(r >> 10) + b32c(r >> 5) + b32c(r) + s + b"." + self.td

    def fragsize_probe(self, fragsize, userid=None):
        u = self.userid if userid is None else userid
        r = self.rand_seed
        self.rand_seed += 1
        probe = bytearray([max(1, r & 0xff)] * 256)
        probe[1] = max(1, (r >> 8) & 0xff)
        hdr = b"r" + b32c((u << 1) | ((fragsize >> 10) & 1)) + b32c((fragsize >> 5) & 31) + b32c(fragsize & 31) + b"d"
        return hostname(hdr, bytes(probe), self.td, codec=self.codec, maxlen=self.maxlen)[0]

    def set_fragsize(self, fragsize, userid=None):
        u = self.userid if userid is None else userid
        return hostname(b"n", bytes([u & 0xff]) + struct.pack(">H", fragsize & 0xffff) + self._rs(), self.td, maxlen=self.maxlen)[0]

    def data(self, payload, up_seq=None, up_frag=None, last=None, userid=None, cmc=None):
        """one upstream data chunk; returns (name, bytes consumed).  `last` defaults to "everything fitted"."""
        u = self.userid if userid is None else userid
        us = self.up_seq if up_seq is None else up_seq
        uf = self.up_frag if up_frag is None else up_frag
        body, n = hostname(b"", payload, self.td, codec=self.codec, maxlen=self.maxlen)
        if last is None:
            last = 1 if n == len(payload) else 0
        c = self.cmc if cmc is None else cmc
        if cmc is None:
            self.cmc = (self.cmc + 1) % 36
        hdr = (b"%x" % (u & 15)) + b32c(((us & 7) << 2) | ((uf & 15) >> 2)) + b32c(((uf & 3) << 3) | (self.dn_seq & 7)) \
            + b32c(((self.dn_frag & 15) << 1) | (last & 1)) + bytes([CMC_CHARS[c % 36]])
        return hdr + body, n

    # raw mode
    def raw_frame(self, cmd, payload=b"", userid=None):
        u = self.userid if userid is None else userid
        return RAW_HEADER[:3] + bytes([cmd | (u & 15)]) + payload

    def raw_login(self, seed=None, password=None):
        return self.raw_frame(0x10, login_hash(self.pw if password is None else password, ((self.seed if seed is None else seed) + 1) & 0xffffffff))


def ip_packet(dst_ip, payload=b"", src_ip=0x0a000001, ident=0):
    """4-byte tun header + minimal IPv4 header + payload (checksum not needed by iodine)"""
    total = 20 + len(payload)
    hdr = struct.pack(">BBHHHBBHII", 0x45, 0, total & 0xffff, ident & 0xffff, 0, 64, 17, 0, src_ip, dst_ip)
    return b"\x00\x00\x08\x00" + hdr + payload


def parse_version_reply(data):
    """VACK + 4-byte seed + userid"""
    if len(data) >= 9 and data[:4] == b"VACK":
        return struct.unpack(">I", data[4:8])[0], data[8]
    return None


# ----------------------------------------------------------------------------- server side of the wire (for client harnesses)
DOWN = {"T": ("b32", b"t", b"h"), "S": ("b64", b"s", b"i"), "U": ("b64u", b"u", b"j"), "V": ("b128", b"v", b"k"), "R": (None, b"r", b"h")}


def nameenc(payload, downenc, tld=b"xy"):
    """one answer host name carrying a prefix of payload (like write_dns_nameenc); returns (name, consumed)"""
    codec, _, letter = DOWN[downenc]
    codec = codec or "b32"
    k, _ = P.TABLES[codec]
    space = 255 - 6
    space -= space // 57
    n = min(len(payload), space * k // 8)
    d = P.dotify(letter + P.enc(codec, payload[:n]))
    if not d.endswith(b"."):
        d += b"."
    return d + tld, n


def server_answer(query_msg, payload, downenc="T", rcode=0, id_=None):
    """the answer datagram an iodine server would send to `query_msg` carrying `payload`"""
    p = P.parse(query_msg) if isinstance(query_msg, (bytes, bytearray)) else query_msg
    name, qtype = p["qd"][0][0], p["qd"][0][1]
    i = p["id"] if id_ is None else id_
    flags = 0x8400 | (rcode & 15)
    if qtype == P.T_TXT:
        codec, letter, _ = DOWN[downenc]
        body = letter + (P.enc(codec, payload) if codec else payload)
        return P.answer(i, name, qtype, [P.txt_rdata(body)], flags=flags)
    if qtype in (P.T_CNAME, P.T_A):
        host, _ = nameenc(payload, downenc)
        return P.answer(i, name, qtype, [P.wire_name(host)], atype=P.T_CNAME, flags=flags)
    if qtype in (P.T_MX, P.T_SRV):
        rds, off, k = [], 0, 1
        while off < len(payload) or k == 1:
            host, n = nameenc(payload[off:], downenc)
            pre = struct.pack(">H", 10 * k) + (struct.pack(">HH", 10, 5060) if qtype == P.T_SRV else b"")
            rds.append(pre + P.wire_name(host))
            off += max(n, 1); k += 1
            if n == 0:
                break
        return P.answer(i, name, qtype, rds, flags=flags)
    return P.answer(i, name, qtype, [payload], flags=flags)
