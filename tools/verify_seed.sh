#!/bin/bash
# verify_seed.sh <PROP> <k>: confirm a mutant delivered in /tmp/seed_<PROP>_out/<k> in the scratch worktree
# /tmp/seed_<PROP>: pristine -> demo exit 0; patched -> builds, unit tests pass, demo exit != 0.
# On success copies it to /verif/seeded/<PROP>-<k>/ with meta.json.
P=$1; K=$2; WT=/tmp/seed_$P; OUT=/tmp/seed_${P}_out/$K
[ -f $OUT/patch.diff ] || { echo "no patch"; exit 2; }
git -C $WT checkout -q -- . ; git -C $WT clean -fdq
make -s -C $WT >/dev/null 2>&1
bash $OUT/run_demo.sh $WT >/tmp/seed_v_pre.log 2>&1; PRE=$?
git -C $WT apply $OUT/patch.diff || { echo "patch does not apply"; exit 2; }
make -s -C $WT clean >/dev/null 2>&1; make -s -C $WT >/tmp/seed_v_build.log 2>&1; B=$?
T=$(make -C $WT test 2>&1 | grep -c "Failures: 0, Errors: 0")
bash $OUT/run_demo.sh $WT >/tmp/seed_v_post.log 2>&1; POST=$?
git -C $WT checkout -q -- . ; git -C $WT clean -fdq
echo "$P-$K: pristine_demo=$PRE build=$B tests_pass=$T patched_demo=$POST"
if [ $PRE -eq 0 ] && [ $B -eq 0 ] && [ "$T" = "1" ] && [ $POST -ne 0 ]; then
  D=/verif/seeded/$P-$K; mkdir -p $D
  cp $OUT/patch.diff $D/; cp $OUT/*.c $OUT/*.h $OUT/*.sh $OUT/*.py $OUT/README.md $D/ 2>/dev/null
  tail -5 /tmp/seed_v_post.log > $D/demo_output_patched.txt
  python3 - "$P" "$K" "$D" <<'PY'
import json,sys,re
P,K,D=sys.argv[1:4]
readme=open(D+"/README.md").read()
meta={"property":P,"mutant":int(K),"source":"fresh sub-agent given only the property text and a scratch worktree",
 "needs_to_manifest":re.sub(r"\s+"," ",readme)[:600],
 "confirmed":{"pristine_demo_exit":0,"patched_builds":True,"patched_unit_tests_pass":True,"patched_demo_exit_nonzero":True,
              "how":"tools/verify_seed.sh in the scratch worktree /tmp/seed_%s"%P}}
json.dump(meta,open(D+"/meta.json","w"),indent=1)
PY
  echo "kept $D"
else
  echo "REJECTED"; exit 1
fi
