#!/usr/bin/env python3
"""Regenerates MANIFEST.json from the table below (kept in one place so it is always valid)."""
import json, os
V = os.path.dirname(os.path.dirname(os.path.abspath(__file__)))
props = [json.loads(l) for l in open(V + "/properties.jsonl")]
NOTE = ("trusted: Lean 4.33 kernel (axioms propext, Classical.choice, Quot.sound only; no sorry/native_decide/bv_decide), the table dumper "
        "(gen/dump.c), the correspondence harness; the C control flow is tied to the hand-written model by differential testing, not by proof")
CLAIMED = {
 "C07": ("proof", "Lean theorems (Props/C07.lean: roundtrip, alphabet purity vs documented ranges, length ratio, capacity contract, chunk losslessness) about the bit-stream codec model instantiated with tables regenerated from /repo/src on every run; correspondence complete for the per-character expressions (every adjacent byte pair in every block position) and exhaustive over (length,capacity) for small lengths; oracle evaluates the property clauses on the C code",
         "Lean proof over regenerated tables + differential correspondence"),
 "C08": ("proof", "Lean theorem hostname_ok (Props/C08.lean): for every L in 100..255, legal domain with 24 characters left, codec, non-empty payload and header size the built name is within L, legal (label automaton), ends in the domain, carries a non-empty exactly-reported prefix which the server-side extraction returns; correspondence of build_hostname/unpack_data/dotify over all L x codecs x boundary+sampled domain lengths (thorough: all)",
         "Lean proof + differential correspondence"),
 "C17": ("proof", "Lean theorems check_topdomain_iff_spec and query_datalen_iff_spec (+ uniqueness of the split) against a declarative spec; correspondence exhaustive over all strings <=6 from {a,A,b,-,.,*,0} (validation, both modes; matching against 12 domains), single-bit perturbations, boundary lengths, random names to 255",
         "Lean proof (iff with declarative spec) + exhaustive-small differential correspondence"),
 "C18": ("proof", "Lean theorems pool_size/pool_in_subnet/pool_excludes/pool_distinct/no_carry for all addresses and /8../30, lookup_exact, available_never_live; correspondence: init_users exhaustively over every host position of /20../30 (thorough /16../30) and the slot functions on random tables with a harness-owned clock",
         "Lean proof for all masks/addresses + differential correspondence"),
 "C19": ("proof", "Lean theorems: login_calculate's word-wise computation equals md5 of (pad32 password xor big-endian challenge x8), dependence of the hashed block on the challenge and each of 32 bytes, extra bytes ignored, raw +-1 blocks distinct; MD5 model tied to md5.c and to Python hashlib (independent oracle) on all lengths 0..200; collision resistance of MD5 is outside the claim",
         "Lean proof of the block identity + three-way MD5 differential"),
 "C20": ("proof", "Lean theorems over ALL event sequences: ring invariant (slots are the last 16 puts), fw_reply_routed (unique id in window => exactly one unchanged reply to the asker), fw_unknown_dropped, fw_reply_only_to_recent_asker, fw_stale_not_leaked; correspondence with fw_query.c exhaustive to depth 4 (thorough 5) plus random long sequences",
         "Lean proof by ring invariant + differential correspondence"),
 "C12": ("proof", "Lean theorems (Props/C12.lean) over a model of read.c/dns_decode in which every receive-buffer read goes through a checked accessor that CAN return stale residue bytes: readname, dns_decode (query and answer, all record types), readtxtbin and dns_get_id return the same result for every residue (no side condition), never read outside the buffer, and never fault except for a write beyond a caller buffer smaller than 63242 bytes (proved sharp; see known findings). Correspondence: 130k directed datagrams x 5 residues through the real decoders vs the model; the property itself is evaluated on the C code (same datagram, different residues) for the decoders and for the whole server loop (filler datagrams leaving genuine-traffic residue before truncated datagrams)",
         "Lean proof of residue independence + residue-differential on the real code"),
 "C13": ("proof", "Lean theorems (Props/C13.lean) over a model of handshake_login's sscanf format, glibc inet_pton4, tun_setip and tun_setmtu: for EVERY reply byte string every command handed to system() is the fixed prefix + local device + dotted quad twice + netmask quad, or + ' mtu ' + decimal 201..1500 (DottedQuad proved equivalent to the inet_pton4 model; device names up to 430 bytes, bound sharp). Correspondence: the real handshake_login/tun_setip/tun_setmtu with system() captured (h_cli) vs the model on ~1200 hostile replies x 14 (type, codec) combinations; oracle: regex from the property text on every captured command; stale-reply differential",
         "Lean proof over all reply bytes (libc scanf/inet_pton models trusted, exercised differentially)"),
 "C10": ("proof", "Lean theorems (Props/C10.lean, 39): for every id, legal question name, type, payload and sufficient buffer, dns_encode's query (with/without EDNS0 OPT) and every answer form (NULL/PRIVATE, TXT tiled by <=252-byte strings, CNAME incl. A questions, MX/SRV with preferences 10,20,.. and SRV weight/port), the NS response (ns.<domain> through a pointer proved to land on a label boundary, optional A glue) and the A response parse under an independent strict RFC 1035 parser written in Lean, with id/name/type echoed and every answer owned by the question name. Correspondence: putname/puttxtbin/dns_encode*/ of the current tree vs the model byte for byte incl. tight buffers; oracle: every datagram emitted by the real server loop, write_dns and the real client builders is parsed by the Lean strict parser (the specification) and by an independent Python one, and compared with the query it answers",
         "Lean proof against an independent strict parser + differential + strict parsing of everything the real code emits"),
 "C16": ("proof", "Lean theorems (Props/C16.lean, 43) over the server session model: a re-delivered ping/data query that hits the answer cache, the query memory or a pending query is a stutter step of the handler (whole state unchanged resp. only id2/from2 noted; exactly one replay / 'x' / no event; no tun write), the cache ring holds exactly the last four fresh answers since the last V/N with their payloads (invariant over all runs), the query memories hold the last 15 data / 30 ping fingerprints, any number of such repeats in any order leaves every stream unchanged; hits do not depend on DNS id, port or (without -c) address, fingerprints are case-insensitive. Correspondence: the real tunnel() loop (h_srv, ASan+UBSan) vs the model on generated sessions, every event and the full slot digest; oracle: C16 monitor on the implementation's trace (cache window, query memory, pending duplicates)",
         "Lean invariant proof over all runs of the session model + differential against the real loop + trace monitor"),
}
TODO = "check not built yet in this session (planned per DESIGN.md §8); not claimed until its check exists"
m = {"version": 1, "setup_cmd": "./setup.sh",
     "hooks": {"guard": "IODINE_VERIF", "enable": "no source hooks needed: harnesses compile the repository's own .c files from the current working tree with -include harness/shim_*.h (compile-time substitution of time() etc.)",
               "baseline_off_cmd": "make -C /repo test", "source_commits": [], "add_only": True},
     "engines": [{"name": "lean-model", "path": "lean/", "serves_properties": sorted(CLAIMED),
                  "kind_free_text": "Lean 4 model + theorems (lake), tables regenerated from source, C correspondence harnesses (ASan+UBSan), Python oracles"}],
     "checks": [], "not_applicable": [], "notes": "see DESIGN.md; known_findings.json lists fixed/recorded defects"}
for p in props:
    i = p["id"]
    if i in CLAIMED:
        cat, text, tech = CLAIMED[i]
        m["checks"].append({"property_id": i, "quick_cmd": "./check %s --tier quick" % i, "thorough_cmd": "./check %s --tier thorough" % i,
                            "evidence_file": "evidence/%s.json" % i, "replay_cmd_template": "./check %s --replay {path}" % i, "engine": "lean-model",
                            "level_claimed": {"category": cat, "text": text, "design_ref": "DESIGN.md §4 " + i}, "level_note": NOTE, "technique": tech})
    else:
        m["not_applicable"].append({"property_id": i, "reason": TODO})
json.dump(m, open(V + "/MANIFEST.json", "w"), indent=1)
print("claimed:", sorted(CLAIMED))
