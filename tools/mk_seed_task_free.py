#!/usr/bin/env python3
"""mk_seed_task_free.py <tag> : scratch worktree /tmp/seed_<tag> and TASK.md for a FREE-FORM seeding round: the sub-agent gets the text of all 20
properties (nothing from /verif) and chooses itself which property to break and where, preferring code a verifier is likely to have overlooked."""
import json, sys, os, subprocess
tag = sys.argv[1]
V = os.path.dirname(os.path.dirname(os.path.abspath(__file__)))
props = [json.loads(l) for l in open(V + "/properties.jsonl")]
wt, out = "/tmp/seed_%s" % tag, "/tmp/seed_%s_out" % tag
subprocess.run(["git", "-C", "/repo", "worktree", "remove", "--force", wt], capture_output=True)
subprocess.run(["git", "-C", "/repo", "worktree", "prune"])
subprocess.run(["git", "-C", "/repo", "worktree", "add", "--detach", wt, "HEAD"], check=True, capture_output=True)
os.makedirs(out, exist_ok=True)
plist = "\n\n".join("**%s — %s**\n%s\nQuantifier: %s\nWhere it lives: %s" % (p["id"], p["title"], p["statement"], p["quantifier"]["text"], ", ".join(p["anchors"]["files"])) for p in props)
focus = {"A": "the glue around the protocol cores: the two main() functions (option parsing, start-up validation), tun.c, util.c, common.c helpers, the Makefile-generated base64u.c, header constants (encoding.h, version.h, common.h macros), struct layouts in user.h",
         "B": "interactions BETWEEN two properties or two modules: a change that is harmless for each function in isolation but breaks a property through their combination (client x server, codec x hostname builder, cache x fragment size, login x address pool, forwarding x tunnel traffic, raw mode x DNS mode)",
         "C": "state and time: behaviour that only differs after a counter wraps, after a timeout, after a slot is re-used, for the second session of a process, after an error path was taken once, or for particular clock values",
         "E": "configuration corners: rarely used options and modes (source checking off with -c, wildcard-served domains, IPv6 listeners and askers, -n ns_ip, -b forwarding, fixed -m fragment size, forced -O / -T, lazy mode off, raw UDP mode, small -M) combined with ordinary protocol features",
         "F": "numeric boundaries: 16 vs 17 fragments, payloads of 4094/4095/4096 bytes, names of 253/255/256 characters, labels of 63/64, passwords of 31/32/33 bytes, user ids 15/16, netmasks /8 and /30, sequence number 7 -> 0, fragment 15 -> 0, the CMC and query-id wrap-arounds, DNS id 0 and 65535, clock values around 2^31",
         "G": "error and retry paths: what the programs do AFTER a BADIP / BADLEN / BADCODEC / BADFRAG / LNAK / VFUL / SERVFAIL, after a give-up, after a cache or query-memory hit, after a failed uncompress, after a refused login, after an option was refused, after a handshake step timed out and was retried",
         "H": "several clients at once: slot allocation and re-use, user-to-user packets, one client's traffic affecting another's queue, cache or sequence numbers, per-user settings leaking between slots, the 16-user limit, clients behind the same address",
         "I": "the CLIENT side only (client.c, iodine.c, tun.c, util.c as the client uses them): handshake steps and their retries, codec and fragment-size negotiation, the tunnel loop's timers and counters, reassembly, what is handed to the shell, option handling",
         "J": "the WIRE layer only (dns.c, read.c, encoding.c, base32/64/64u/128.c, the Makefile rule that generates base64u.c): encoders and decoders of every record type, name compression, length fields, capacity computations, the host-name builder and its inverse on the server",
         "K": "the SERVER's session machine only (iodined.c handle_null_request and its helpers, user.c, fw_query.c): the answer cache and query memories, fragment/ack bookkeeping, lazy-mode query holding, the send-real-soon sweep, raw mode, forwarding",
         "L": "things that only show over LONG runs or many repetitions: counters that wrap (3-bit and 4-bit numbers, the 36-value CMC, 16-bit ids and seeds), rings that fill up (4, 15, 16, 30 entries), the 16th user, the 17th fragment, clocks far in the future, hundreds of packets in one session",
         "D": "input decoding and memory: hostile or unusual datagrams, boundary lengths, signedness and integer conversions, buffers filled exactly, residue of earlier messages, unusual but legal DNS encodings (compression, EDNS0, record types, case)"}[tag[-1]]
text = f"""# Task: seed realistic property-breaking changes into a scratch copy of iodine (free-form round)

You are working in a scratch git worktree of the yarrick/iodine repository at {wt} (C99; build with `make -C {wt}`, unit tests with `make -C {wt} test` — needs the `check` library, already installed). Work ONLY inside {wt} and {out}. Do not look at or touch /repo, /verif or any other directory (in particular nothing under /verif may be read). Ignore the `#ifdef IODINE_VERIF` hook lines in src/iodined.c (leave them alone).

## The properties (semantic properties users of iodine rely on)

{plist}

## What I need

THREE different, independent changes to the iodine source (each a separate small patch against the pristine worktree), each breaking ONE (or more) of the properties above — you choose which. A verification team has built checks for all twenty properties and has already seen some 120 seeded changes, mostly single-site mutations inside the obvious functions. Your job is to find what they are likely to have OVERLOOKED. Your focus area: {focus}. For each change:
1. the tree still compiles without new warnings (`make`), and the existing unit-test suite still passes (`make test` reports 0 failures, 0 errors);
2. one of the properties above is broken — say which, and why the statement (including its quantifier) really covers your scenario;
3. the breakage needs something SPECIFIC to manifest (a particular configuration, command line, input, sequence, timing or interaction), NOT something ordinary use or a few hundred random inputs would expose; the change should look like a plausible refactoring, optimisation, clean-up, portability fix or "fix" that a reviewer could wave through;
4. you provide a demonstration: `demo.c` (or a script) + `run_demo.sh <checkout-path>` that builds against the sources of the given checkout in a temp dir (you may `#include` a .c file to reach static functions — e.g. `#define main iodined_main` then `#include "iodined.c"`; link with `-lz -lselinux -lsystemd`; for memory-safety properties build with `-fsanitize=address,undefined -fno-sanitize-recover=all`), exits 0 on the pristine tree and non-zero with the change applied, printing what went wrong. For properties about client and server together, run both in one demo (include client.c in one translation unit and iodined.c in another, interpose sendto/recvfrom/recvmsg/select/time).

Make the three changes as different from each other as possible.

## Deliverables
For k = 1, 2, 3 create {out}/<k>/ containing: `patch.diff` (from `git diff` in the worktree, applies with `git apply` to the pristine tree), the demo files, `run_demo.sh` (usage: `run_demo.sh <checkout-path>`), `README.md` (first line: `PROPERTY: Cnn` naming the property broken; then what the change is, why it looks harmless, exactly what is needed for it to manifest, the commands you ran and their results on pristine and patched trees).
Before finishing, verify each yourself: pristine → build ok, tests pass, demo exit 0; patched → build ok, tests pass, demo exit non-zero. Always restore the worktree afterwards (`git -C {wt} checkout -- . && git -C {wt} clean -fdq`). Final answer: a short summary of the three changes and the property each breaks.
"""
open(out + "/TASK.md", "w").write(text)
print("ok", wt, out)
