"""Shared machinery of the checks: Lean build + axiom audit (proof obligations),
harness builds from /repo's working tree (cached by content hash), running the model
driver and the C harness on the same op file, evidence and violation reporting."""
import fcntl, glob, hashlib, json, os, random, re, shutil, subprocess, sys, tempfile, time

VERIF = os.path.dirname(os.path.dirname(os.path.abspath(__file__)))
REPO = os.environ.get("IODINE_REPO", "/repo")
LEAN = os.path.join(VERIF, "lean")
CACHE = os.path.join(VERIF, ".cache")
ALLOWED_AXIOMS = {"propext", "Classical.choice", "Quot.sound"}
SAN = ["-O1", "-g", "-fsanitize=address,undefined", "-fno-sanitize-recover=all", "-fno-omit-frame-pointer"]
REPO_CFLAGS = ["-std=gnu99", "-DLINUX", "-D_GNU_SOURCE", "-DHAVE_SETCON", "-DHAVE_SYSTEMD",
               "-DGITREVISION=\"verif\"", "-w"]
SAN_ENV = {"ASAN_OPTIONS": "detect_leaks=0:abort_on_error=0:exitcode=99",
           "UBSAN_OPTIONS": "print_stacktrace=1:halt_on_error=1:exitcode=98"}


def log(*a):
    print(*a, flush=True)


class Timer:
    def __init__(self):
        self.t0 = time.time()

    def s(self):
        return round(time.time() - self.t0, 2)


# --------------------------------------------------------------------------- Lean side

class LeanStatus:
    def __init__(self):
        self.driver_ok = False
        self.lib_ok = False
        self.log = ""
        self.failed_modules = []


_lean_status = None


def _lake(args, timeout=3000):
    env = dict(os.environ)
    p = subprocess.run(["lake"] + args, cwd=LEAN, stdout=subprocess.PIPE, stderr=subprocess.STDOUT,
                       text=True, timeout=timeout, env=env)
    return p.returncode, p.stdout


def ensure_lean():
    """gen_tables (Tie 1) + lake build of driver and library, under a lock.  Never raises on
    proof failure: returns a LeanStatus so that the caller can go into search mode."""
    global _lean_status
    if _lean_status is not None:
        return _lean_status
    st = LeanStatus()
    os.makedirs(CACHE, exist_ok=True)
    with open(os.path.join(CACHE, "lake.lock"), "w") as lk:
        fcntl.flock(lk, fcntl.LOCK_EX)
        rc = subprocess.run([sys.executable, os.path.join(VERIF, "tools", "gen_tables.py")],
                            stdout=subprocess.PIPE, stderr=subprocess.STDOUT, text=True)
        st.log += rc.stdout
        if rc.returncode != 0:
            st.log += "\ngen_tables failed\n"
            _lean_status = st
            return st
        rc1, out1 = _lake(["build", "iodmodel"])
        st.log += out1
        st.driver_ok = rc1 == 0
        rc2, out2 = _lake(["build", "IodineModel"])
        st.log += out2
        st.lib_ok = rc2 == 0
        st.failed_modules = sorted(set(re.findall(r"^- (IodineModel[\w.]*)", out2, re.M)))
        # private copy of the driver so that a concurrent rebuild cannot swap it under us
        if st.driver_ok:
            src = os.path.join(LEAN, ".lake", "build", "bin", "iodmodel")
            h = hashlib.sha256(open(src, "rb").read()).hexdigest()[:16]
            dst = os.path.join(CACHE, "iodmodel." + h)
            if not os.path.exists(dst):
                shutil.copy2(src, dst + ".tmp")
                os.replace(dst + ".tmp", dst)
            st.driver = dst
    _lean_status = st
    return st


FORBIDDEN = re.compile(r"\b(sorry|admit|native_decide|bv_decide|implemented_by|unsafe)\b|^\s*axiom\s|maxHeartbeats\s+0\b")


def strip_comments(text):
    # remove /- ... -/ (nested) and -- comments
    out, i, depth = [], 0, 0
    while i < len(text):
        if text.startswith("/-", i):
            depth += 1; i += 2; continue
        if depth and text.startswith("-/", i):
            depth -= 1; i += 2; continue
        if depth:
            if text[i] == "\n":
                out.append("\n")
            i += 1; continue
        if text.startswith("--", i):
            j = text.find("\n", i)
            i = len(text) if j < 0 else j
            continue
        out.append(text[i]); i += 1
    return "".join(out)


def grep_forbidden():
    """sorry/admit/axiom/native_decide/... anywhere in the library, outside comments."""
    hits = []
    for f in glob.glob(os.path.join(LEAN, "**", "*.lean"), recursive=True):
        if "/.lake/" in f:
            continue
        body = strip_comments(open(f).read())
        for n, line in enumerate(body.split("\n"), 1):
            if FORBIDDEN.search(line):
                hits.append("%s:%d: %s" % (os.path.relpath(f, LEAN), n, line.strip()))
    return hits


def prop_modules(prop):
    """Props/<prop>.lean and its continuations Props/<prop><suffix>.lean (e.g. C10Session, C10Session2, C02b: theorems that need lemma
    files which themselves import Props/<prop>.lean), the main file first"""
    d = os.path.join(LEAN, "IodineModel", "Props")
    mods = sorted(os.path.basename(f)[:-5] for f in glob.glob(os.path.join(d, prop + "*.lean")))
    mods = [m for m in mods if re.fullmatch(re.escape(prop) + r"[A-Za-z][A-Za-z0-9]*|" + re.escape(prop), m)]
    return sorted(mods, key=lambda m: (m != prop, m))


def prop_theorems(prop):
    """names of the theorems declared in Props/<prop>.lean [+ Props/<prop>Session.lean] (the property statements)"""
    mods = prop_modules(prop)
    if not mods:
        return []
    body = "\n".join(strip_comments(open(os.path.join(LEAN, "IodineModel", "Props", m + ".lean")).read()) for m in mods)
    ns = []
    names = []
    for line in body.split("\n"):
        m = re.match(r"\s*namespace\s+(\S+)", line)
        if m:
            ns.append(m.group(1)); continue
        m = re.match(r"\s*end\s+(\S+)", line)
        if m and ns and ns[-1] == m.group(1):
            ns.pop(); continue
        m = re.match(r"\s*(?:@\[[^\]]*\]\s*)?(protected\s+|private\s+)?theorem\s+(\S+)", line)
        if m and not (m.group(1) or "").startswith("private"):
            names.append(".".join(ns + [m.group(2)]))
    return names


def audit_axioms(prop):
    """#print axioms for every theorem of Props/<prop>.lean.  Returns (ok, {thm: [axioms]}, raw)."""
    names = prop_theorems(prop)
    if not names:
        return False, {}, "no theorems found for " + prop
    src = "".join("import IodineModel.Props.%s\n" % m for m in prop_modules(prop)) + "".join("#print axioms %s\n" % n for n in names)
    tmp = tempfile.NamedTemporaryFile("w", suffix=".lean", dir=CACHE, delete=False)
    tmp.write(src); tmp.close()
    try:
        p = subprocess.run(["lake", "env", "lean", tmp.name], cwd=LEAN, stdout=subprocess.PIPE,
                           stderr=subprocess.STDOUT, text=True, timeout=900)
    finally:
        os.unlink(tmp.name)
    raw = p.stdout
    res = {}
    flat = raw.replace("\n", " ")
    for n in names:
        m = re.search(r"'%s' depends on axioms: \[([^\]]*)\]" % re.escape(n), flat)
        if m:
            res[n] = [a.strip() for a in m.group(1).split(",") if a.strip()]
        elif re.search(r"'%s' does not depend on any axioms" % re.escape(n), flat):
            res[n] = []
    ok = p.returncode == 0 and len(res) == len(names) and all(set(v) <= ALLOWED_AXIOMS for v in res.values())
    return ok, res, raw


def leanchecker(module):
    p = subprocess.run(["lake", "env", "leanchecker", module], cwd=LEAN, stdout=subprocess.PIPE,
                       stderr=subprocess.STDOUT, text=True, timeout=3000)
    return p.returncode == 0, p.stdout


# --------------------------------------------------------------------------- C side

def _hash_files(paths, extra=""):
    h = hashlib.sha256()
    for p in sorted(paths):
        h.update(p.encode()); h.update(b"\0")
        with open(p, "rb") as f:
            h.update(f.read())
        h.update(b"\0")
    h.update(extra.encode())
    return h.hexdigest()[:24]


def repo_sources():
    src = os.path.join(REPO, "src")
    fs = [f for f in glob.glob(os.path.join(src, "*.[ch]")) if os.path.basename(f) != "base64u.c"
          and os.path.basename(f) != "base64u.h"]
    fs.append(os.path.join(src, "Makefile"))
    return fs


PURE_OBJS = ["base32.c", "base64.c", "base64u.c", "base128.c", "encoding.c", "common.c", "read.c",
             "dns.c", "login.c", "md5.c", "user.c", "fw_query.c"]


class BuildError(Exception):
    pass


def build_harness(name, harness_srcs, repo_srcs, extra_flags=(), shim="shim_time.h", libs=("-lz", "-lselinux", "-lsystemd")):
    """Compile harness + the named /repo/src files (from the CURRENT working tree, base64u.c made
    by the repo's own Makefile rule) with ASan+UBSan in a scratch dir outside /repo and /verif;
    keep only the binary, cached under a hash of everything that went into it."""
    hs = [os.path.join(VERIF, "harness", f) for f in harness_srcs]
    hdeps = glob.glob(os.path.join(VERIF, "harness", "*.h"))
    if os.environ.get("VERIF_COV"):
        return _build_cov(name, hs, repo_srcs, extra_flags, shim, libs)
    key = _hash_files(repo_sources() + hs + hdeps, " ".join(list(extra_flags) + list(repo_srcs) + SAN + [shim or ""]))
    d = os.path.join(CACHE, "bin", key)
    exe = os.path.join(d, name)
    if os.path.exists(exe):
        try:
            os.utime(d, None)       # in use: keep it away from the pruning of old cache entries
        except OSError:
            pass
        return exe
    os.makedirs(os.path.join(CACHE, "bin"), exist_ok=True)
    with open(os.path.join(CACHE, "bin", "build.lock"), "w") as lk:
        fcntl.flock(lk, fcntl.LOCK_EX)          # one build at a time; the others then find the binary
        return _build_harness_locked(name, hs, repo_srcs, extra_flags, shim, libs, d, exe)


def _build_harness_locked(name, hs, repo_srcs, extra_flags, shim, libs, d, exe):
    if os.path.exists(exe):
        return exe
    os.makedirs(d, exist_ok=True)
    # keep the cache small: only the most recent builds survive
    olds = sorted([o for o in glob.glob(os.path.join(CACHE, "bin", "*")) if os.path.isdir(o)], key=os.path.getmtime)
    for o in olds[:-12]:
        if o != d and time.time() - os.path.getmtime(o) > 3600:
            shutil.rmtree(o, ignore_errors=True)
    tmp = tempfile.mkdtemp(prefix="iodh.")
    try:
        src = os.path.join(REPO, "src")
        work = os.path.join(tmp, "src")
        shutil.copytree(src, work, ignore=shutil.ignore_patterns("*.o", "base64u.*", "obj", "libs"))
        p = subprocess.run(["make", "-s", "-C", work, "base64u.c"], stdout=subprocess.PIPE, stderr=subprocess.STDOUT, text=True)
        if p.returncode != 0:
            raise BuildError("make base64u.c failed:\n" + p.stdout)
        # base64u.h, if the Makefile has a rule for it
        cmd = ["gcc"] + SAN + REPO_CFLAGS + list(extra_flags) + ["-I", work, "-I", os.path.join(VERIF, "harness")]
        if shim:
            cmd += ["-include", os.path.join(VERIF, "harness", shim)]
        cmd += hs + [os.path.join(work, f) for f in repo_srcs] + ["-o", os.path.join(tmp, name)] + list(libs)
        p = subprocess.run(cmd, stdout=subprocess.PIPE, stderr=subprocess.STDOUT, text=True)
        if p.returncode != 0:
            raise BuildError("harness build failed:\n" + " ".join(cmd) + "\n" + p.stdout[-4000:])
        shutil.copy2(os.path.join(tmp, name), exe + ".tmp")
        os.replace(exe + ".tmp", exe)
    finally:
        shutil.rmtree(tmp, ignore_errors=True)
    return exe


def _build_cov(name, hs, repo_srcs, extra_flags, shim, libs):
    """coverage build (tools/coverage.sh only, never a registered check): gcc --coverage in the directory $VERIF_COV (outside /repo and /verif)"""
    d = os.path.join(os.environ["VERIF_COV"], name)
    exe = os.path.join(d, name)
    with open(os.path.join(os.environ["VERIF_COV"], "build.lock"), "w") as lk:
        fcntl.flock(lk, fcntl.LOCK_EX)
        if os.path.exists(exe):
            return exe
        work = os.path.join(d, "src")
        shutil.copytree(os.path.join(REPO, "src"), work, ignore=shutil.ignore_patterns("*.o", "base64u.*", "obj", "libs"))
        subprocess.run(["make", "-s", "-C", work, "base64u.c"], check=True)
        cmd = ["gcc", "-O0", "-g", "--coverage"] + REPO_CFLAGS + list(extra_flags) + ["-I", work, "-I", os.path.join(VERIF, "harness")]
        if shim:
            cmd += ["-include", os.path.join(VERIF, "harness", shim)]
        cmd += hs + [os.path.join(work, f) for f in repo_srcs] + ["-o", exe] + list(libs)
        p = subprocess.run(cmd, cwd=d, stdout=subprocess.PIPE, stderr=subprocess.STDOUT, text=True)
        if p.returncode != 0:
            raise BuildError(p.stdout[-3000:])
    return exe


SRV_OBJS = ["tun.c", "dns.c", "read.c", "encoding.c", "login.c", "base32.c", "base64.c", "base64u.c", "base128.c", "md5.c",
            "common.c", "user.c", "fw_query.c"]


def build_srv():
    """h_srv: the real iodined.c (#included, so static functions are the repository's own) driven through tunnel()"""
    return build_harness("h_srv", ["h_srv.c"], SRV_OBJS, extra_flags=["-DIODINE_VERIF", "-pthread"], shim="shim_srv.h")


CLI_OBJS = ["tun.c", "dns.c", "read.c", "encoding.c", "login.c", "base32.c", "base64.c", "base64u.c", "base128.c", "md5.c", "common.c"]


def build_cli():
    """h_cli: the real client.c (#included) and tun.c driven function by function"""
    return build_harness("h_cli", ["h_cli.c"], CLI_OBJS, extra_flags=["-DIODINE_VERIF", "-pthread"], shim="shim_srv.h")


class RunResult:
    def __init__(self, lines, rc, stderr):
        self.lines, self.rc, self.stderr = lines, rc, stderr


def run_lines(exe, ops, timeout=1800, env_extra=None):
    """feed op lines, get answer lines"""
    env = dict(os.environ); env.update(SAN_ENV)
    if env_extra:
        env.update(env_extra)
    data = ("\n".join(ops) + "\n").encode()
    p = subprocess.run([exe], input=data, stdout=subprocess.PIPE, stderr=subprocess.PIPE, timeout=timeout, env=env)
    return RunResult(p.stdout.decode("latin1").split("\n")[:-1] if p.stdout else [], p.returncode,
                     p.stderr.decode("latin1"))


def run_parallel(exe, ops, jobs=None, chunk=None, **kw):
    """split an op list (of independent ops) over processes; returns concatenated RunResult.
    On an abort, `abort_index` is the index of the first op that got no answer (the op that
    killed the process) and `stderr` the sanitizer report of that process."""
    from concurrent.futures import ThreadPoolExecutor
    jobs = jobs or min(16, os.cpu_count() or 4)
    if len(ops) < 2000 or jobs == 1:
        parts = [ops]
    else:
        chunk = chunk or (len(ops) + jobs - 1) // jobs
        parts = [ops[i:i + chunk] for i in range(0, len(ops), chunk)]
    with ThreadPoolExecutor(jobs) as ex:
        rs = list(ex.map(lambda p: run_lines(exe, p, **kw), parts))
    lines, rc, err, abort_index = [], 0, "", None
    for part, r in zip(parts, rs):
        if (r.rc != 0 or len(r.lines) < len(part)) and rc == 0:
            rc, err = (r.rc or -1), r.stderr
            # answers still in the stdio buffer were lost with the abort: re-run the unanswered tail line-buffered
            # (ops run through run_parallel are independent of each other) to find the op that killed the process
            tail = part[len(r.lines):]
            r2 = run_lines(exe, tail, env_extra={"VERIF_LINEBUF": "1"})
            abort_index = len(lines) + len(r.lines) + min(len(r2.lines), len(tail) - 1)
            if r2.stderr:
                err = r2.stderr
        lines += r.lines[:len(part)]
        if len(r.lines) < len(part):
            lines += ["<no-answer>"] * (len(part) - len(r.lines))
    res = RunResult(lines, rc, err)
    res.abort_index = abort_index
    return res


# --------------------------------------------------------------------------- reporting

def hx(b):
    return b.hex() if len(b) else "-"


def unhx(s):
    return b"" if s == "-" else bytes.fromhex(s)


def load_known():
    f = os.path.join(VERIF, "known_findings.json")
    if not os.path.exists(f):
        return []
    return json.load(open(f)).get("findings", [])


class Check:
    """One run of one property's check."""

    def __init__(self, prop, tier, seed):
        self.prop, self.tier, self.seed = prop, tier, seed
        self.t = Timer()
        self.rng = random.Random(seed * 1000003 + int(prop[1:]))
        self.violations = []      # (replay_path, no_input, text)
        self.known_hits = []
        self.cov = {"evaluations": 0, "distinct_nontrivial": 0, "samples": [], "rule": ""}
        self.assumptions = []
        self.notes = {}
        self.known = [k for k in load_known() if k.get("property") == prop and k.get("kind") == "finding"]

    # -- proofs
    def proofs(self, extra_modules=()):
        """Build Lean (Tie 1 + proof obligations) and audit.  Returns True when every obligation of this
        property is discharged.  Fills coverage keys of the proof level."""
        st = ensure_lean()
        names = prop_theorems(self.prop)
        forb = grep_forbidden()
        ok_ax, axioms, raw = (False, {}, "") if not st.lib_ok else audit_axioms(self.prop)
        discharged = len(axioms) if (st.lib_ok and ok_ax and not forb) else 0
        self.cov.update({
            "obligations": len(names),
            "discharged": discharged,
            "checker_cmd": "python3 tools/gen_tables.py && (cd lean && lake build iodmodel IodineModel) && lake env lean <#print axioms of Props/%s>" % self.prop,
            "trusted_base": ["Lean 4.33.0 kernel", "axioms: " + ", ".join(sorted({a for v in axioms.values() for a in v}) or ["none"]),
                             "gen/dump.c + tools/gen_tables.py (tables regenerated from /repo/src)",
                             "correspondence check (differential run of model driver and C harness)"],
            "theorems": names,
            "axioms_per_theorem": axioms,
        })
        self.proof_ok = bool(st.lib_ok and ok_ax and not forb and names)
        self.proof_detail = ""
        if not st.lib_ok:
            errs = re.findall(r"^error: .*$", st.log, re.M)[:20]
            self.proof_detail = "lake build failed; modules: %s\n%s" % (", ".join(st.failed_modules), "\n".join(errs))
        elif forb:
            self.proof_detail = "forbidden constructs: " + "; ".join(forb[:10])
        elif not ok_ax:
            self.proof_detail = "axiom audit failed:\n" + raw[-2000:]
        if self.tier == "thorough" and self.proof_ok:
            for mod in prop_modules(self.prop):
                ok, out = leanchecker("IodineModel.Props." + mod)
                self.cov["leanchecker"] = "ok" if ok else out[-500:]
                if not ok:
                    self.proof_ok = False
                    self.proof_detail = "leanchecker rejected IodineModel.Props.%s:\n%s" % (mod, out[-1500:])
                    break
        return self.proof_ok

    def driver(self):
        st = ensure_lean()
        if not st.driver_ok:
            return None
        return st.driver

    # -- results
    def sample(self, s, limit=6):
        if len(self.cov["samples"]) < limit:
            self.cov["samples"].append(s)

    def violation(self, what, replay_lines, key=None, no_input=False):
        """Record a violation (or a KNOWN-FINDING when `key` is listed in known_findings.json)."""
        for k in self.known:
            if key is not None and k.get("id") == key:
                if key not in [h[0] for h in self.known_hits]:
                    self.known_hits.append((key, k.get("what", what)))
                return
        d = os.path.join(VERIF, "replays", self.prop)
        os.makedirs(d, exist_ok=True)
        body = "\n".join(replay_lines) + "\n"
        name = hashlib.sha256((what + body).encode()).hexdigest()[:12] + ".ops"
        path = os.path.join(d, name)
        with open(path, "w") as f:
            f.write("# property %s: %s\n" % (self.prop, what.replace("\n", "\n# ")))
            f.write(body)
        if len(self.violations) < 50:
            self.violations.append((path, no_input, what))

    def finish(self, level="proof"):
        self.cov.setdefault("rule", "")
        ev = {
            "property_id": self.prop, "tier": self.tier, "seed": self.seed, "level": level,
            "coverage": self.cov, "assumptions": self.assumptions, "wall_s": self.t.s(),
            "violations": len(self.violations), "notes": self.notes,
            "known_findings_hit": [k for k, _ in self.known_hits],
        }
        os.makedirs(os.path.join(VERIF, "evidence"), exist_ok=True)
        p = os.path.join(VERIF, "evidence", self.prop + ".json")
        if os.environ.get("VERIF_COV"):
            p = os.path.join(os.environ["VERIF_COV"], self.prop + ".evidence.json")      # coverage runs never touch evidence/
        with open(p + ".tmp", "w") as f:
            json.dump(ev, f, indent=1, default=str)
        os.replace(p + ".tmp", p)
        for k, what in self.known_hits:
            log("KNOWN-FINDING: property=%s %s" % (self.prop, what))
        seen = set()
        for path, no_input, what in self.violations:
            if path in seen:
                continue
            seen.add(path)
            log("# " + what.split("\n")[0][:300])
            log("VIOLATION property=%s replay=%s%s" % (self.prop, path, " no-failing-input-found" if no_input else ""))
        if self.violations:
            return 1
        log("OK property=%s tier=%s seed=%d wall=%.1fs evaluations=%d obligations=%s/%s" % (
            self.prop, self.tier, self.seed, self.t.s(), self.cov.get("evaluations", 0),
            self.cov.get("discharged"), self.cov.get("obligations")))
        return 0


def differential(chk, harness_exe, ops, project=None, label="corr"):
    """Run the same ops through the model driver and the C harness.  Returns (c_lines, m_lines, diffs)
    where diffs is a list of indices at which the (projected) answers differ.  A sanitizer abort shows up as
    missing answers + non-zero rc and is returned in c.rc/c.stderr."""
    drv = chk.driver()
    c = run_parallel(harness_exe, ops)
    if drv is None:
        return c, None, None
    m = run_parallel(drv, ops)
    diffs = []
    for i in range(len(ops)):
        a = c.lines[i] if i < len(c.lines) else "<no-answer>"
        b = m.lines[i] if i < len(m.lines) else "<no-answer>"
        if project:
            a, b = project(a), project(b)
        if a != b:
            diffs.append(i)
    return c, m, diffs


def pure_check(chk, ops, oracle, rule, corr_name, harness=("h_pure", ["h_pure.c"], None), sequential=False):
    """Standard shape of a check on a pure core: proofs, differential run of `ops`, property oracle on the
    implementation's answers.  oracle(op, answer) -> (why | None, nontrivial_key | None, finding_key | None)."""
    name, srcs, objs = harness
    proof_ok = chk.proofs()
    exe = build_harness(name, srcs, objs or PURE_OBJS)
    if sequential:
        c = run_lines(exe, ops); c.abort_index = len(c.lines) if c.rc else None
        drv = chk.driver()
        m = run_lines(drv, ops) if drv else None
        diffs = None if m is None else [i for i in range(len(ops)) if (c.lines[i] if i < len(c.lines) else "<no-answer>") != (m.lines[i] if i < len(m.lines) else "<no-answer>")]
    else:
        c, m, diffs = differential(chk, exe, ops)
    bad = 0
    nontriv = set()
    if c.rc != 0:
        i = c.abort_index if c.abort_index is not None else 0
        chk.violation("C harness aborted (sanitizer or crash), rc=%d on op: %s\n%s" % (c.rc, ops[min(i, len(ops) - 1)][:200], c.stderr[-1500:]),
                      ops[:i + 1] if sequential else [ops[min(i, len(ops) - 1)]])
        bad += 1
    for i, op in enumerate(ops):
        line = c.lines[i] if i < len(c.lines) else "<no-answer>"
        why, key, fkey = oracle(op, line)
        if why:
            bad += 1
            chk.violation("%s fails on the implementation: %s\n op: %s\n answer: %s" % (chk.prop, why, op[:300], line[:300]),
                          ops[:i + 1] if sequential else [op], key=fkey)
        elif key is not None:
            nontriv.add(key)
    chk.cov["evaluations"] = chk.cov.get("evaluations", 0) + len(ops)
    chk.cov["distinct_nontrivial"] = chk.cov.get("distinct_nontrivial", 0) + len(nontriv)
    chk.cov["traces_validated_against_impl"] = chk.cov.get("traces_validated_against_impl", 0) + len(ops)
    chk.cov["rule"] = rule
    for i in sorted({0, len(ops) // 3, 2 * len(ops) // 3, len(ops) - 1}):
        if 0 <= i < len(ops):
            chk.sample({"op": ops[i][:160], "impl": (c.lines[i] if i < len(c.lines) else "")[:200]})
    chk.notes["correspondence_diffs"] = None if diffs is None else len(diffs)
    if (not proof_ok or diffs is None or diffs) and bad == 0:
        if diffs:
            i = diffs[0]
            chk.violation("correspondence broken (%s): model and implementation differ on %d ops; the property oracle found no failing input.\nfirst: %s\n impl: %s\n model: %s"
                          % (corr_name, len(diffs), ops[i][:200], c.lines[i][:200] if i < len(c.lines) else None, m.lines[i][:200] if i < len(m.lines) else None),
                          ["# correspondence %s no longer checks" % corr_name] + ([ops[j] for j in diffs[:5]] if not sequential else ops[:i + 1]), no_input=True)
        elif diffs is None:
            chk.violation("model driver does not build: " + ensure_lean().log[-1500:], ["# lake build iodmodel failed"], no_input=True)
        else:
            chk.violation("proof obligation no longer checks: " + chk.proof_detail,
                          ["# theorems of Props/%s.lean: %s" % (chk.prop, ", ".join(prop_theorems(chk.prop))), "# " + chk.proof_detail.replace("\n", "\n# ")], no_input=True)
    return c, m, diffs, bad


def pure_replay(chk, path, oracle=None):
    exe = build_harness("h_pure", ["h_pure.c"], PURE_OBJS)
    ops = [l.strip() for l in open(path) if l.strip() and not l.startswith("#")]
    c = run_lines(exe, ops)
    bad = 1 if c.rc else 0
    for o, l in zip(ops, c.lines):
        print(o[:100], "->", l[:200])
        if oracle and oracle(o, l)[0]:
            print("   VIOLATES:", oracle(o, l)[0]); bad += 1
    if c.rc:
        print(c.stderr[-1500:])
    chk.cov.update({"evaluations": max(1, len(ops)), "distinct_nontrivial": 0})
    return 1 if bad else 0
